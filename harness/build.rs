// Detect whether /repo carries the cfg-guarded verification hooks (src/verif.rs).
// Without them the hook-free parts of the harness still build and run.
fn main() {
    println!("cargo:rustc-check-cfg=cfg(am_hooks)");
    println!("cargo:rerun-if-changed=/repo/src/verif.rs");
    println!("cargo:rerun-if-changed=/repo/src/lib.rs");
    let has = std::path::Path::new("/repo/src/verif.rs").exists()
        && std::fs::read_to_string("/repo/src/lib.rs")
            .map(|s| s.contains("mod verif"))
            .unwrap_or(false);
    if has {
        println!("cargo:rustc-cfg=am_hooks");
    }
}
