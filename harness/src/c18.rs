//! C18: ReloadId / AtomicReloadId against spec/ReloadId.tla.
use crate::assets::Leaf;
use crate::mem::MemSource;
use crate::{trace, Report};
use assets_manager::source::OwnedDirEntry;
use assets_manager::{AssetCache, AtomicReloadId, ReloadId};
use rand::{rngs::StdRng, Rng, SeedableRng};
use serde_json::json;
use std::sync::Arc;

/// ReloadIds 0..=n obtained hook-free from real reloads of one asset:
/// `NEVER`, then `last_reload_id()` after each of n successful reloads.
pub fn real_ids(n: usize) -> Vec<ReloadId> {
    let src = MemSource::new(true);
    src.put("a", "x", b"v0");
    let cache = AssetCache::with_source(src.clone());
    let h = cache.load::<Leaf<0>>("a").expect("load a");
    let mut ids = vec![h.last_reload_id()];
    for i in 1..=n {
        src.put("a", "x", format!("v{i}").as_bytes());
        let before = h.last_reload_id();
        let deadline = std::time::Instant::now() + std::time::Duration::from_secs(10);
        src.send(&[OwnedDirEntry::File("a".into(), "x".into())]);
        loop {
            cache.hot_reload();
            if h.last_reload_id() != before {
                break;
            }
            if std::time::Instant::now() > deadline {
                eprintln!("reload {i} never happened");
                std::process::exit(2);
            }
            std::thread::sleep(std::time::Duration::from_millis(1));
        }
        ids.push(h.last_reload_id());
    }
    ids
}

fn idx(ids: &[ReloadId], r: ReloadId) -> i64 {
    ids.iter().position(|x| *x == r).map(|p| p as i64).unwrap_or(-1)
}

fn apply(a: &AtomicReloadId, ids: &[ReloadId], op: &str, arg: usize) -> i64 {
    match op {
        "update" => a.update(ids[arg]) as i64,
        "fetch_max" => idx(ids, a.fetch_max(ids[arg])),
        "swap" => idx(ids, a.swap(ids[arg])),
        "store" => {
            a.store(ids[arg]);
            0
        }
        "load" => idx(ids, a.load()),
        _ => -2,
    }
}

/// `amv rid-replay <cases.ndjson> <maxid>`: sequential behaviours of the spec.
pub fn replay(args: &[String]) {
    let cases = crate::read_cases(&args[0]);
    let maxid: usize = args[1].parse().unwrap();
    let ids = real_ids(maxid);
    let mut rep = Report::default();
    // order facts the specification assumes of ids
    rep.checks += 1;
    if ids[0] != ReloadId::NEVER || ReloadId::default() != ReloadId::NEVER {
        rep.mismatch(json!({"what":"fresh handle id is not NEVER"}));
    }
    for i in 0..ids.len() {
        for j in 0..ids.len() {
            rep.checks += 1;
            if (ids[i] < ids[j]) != (i < j) || (ids[i] == ids[j]) != (i == j) {
                rep.mismatch(json!({"what":"ids not ordered like reload counts","i":i,"j":j}));
            }
        }
    }
    for case in cases.iter() {
        let steps = case.as_array().unwrap();
        rep.cases += 1;
        let a = AtomicReloadId::new();
        let only_update = steps.iter().all(|s| s["op"] == "update" || s["op"] == "load");
        let mut plain = ReloadId::NEVER;
        for (k, s) in steps.iter().enumerate() {
            let op = s["op"].as_str().unwrap();
            let arg = s["arg"].as_u64().unwrap() as usize;
            let got = apply(&a, &ids, op, arg);
            let cur = idx(&ids, a.load());
            rep.checks += 1;
            if got != s["ret"].as_i64().unwrap() || cur != s["cur"].as_i64().unwrap() {
                rep.mismatch(json!({"what":"AtomicReloadId diverges from spec","case":case,"step":k,
                    "got_ret":got,"got_cur":cur}));
                break;
            }
            if only_update {
                let (gr, gc) = if op == "update" {
                    let r = plain.update(ids[arg]);
                    (r as i64, idx(&ids, plain))
                } else {
                    (idx(&ids, plain), idx(&ids, plain))
                };
                rep.checks += 1;
                if gr != s["ret"].as_i64().unwrap() || gc != s["cur"].as_i64().unwrap() {
                    rep.mismatch(json!({"what":"ReloadId::update diverges from spec","case":case,"step":k,
                        "got_ret":gr,"got_cur":gc}));
                    break;
                }
            }
        }
        // constructors
        rep.checks += 1;
        let w = AtomicReloadId::with_value(ids[maxid]);
        if w.load() != ids[maxid] || AtomicReloadId::default().load() != ReloadId::NEVER {
            rep.mismatch(json!({"what":"with_value/default"}));
        }
    }
    rep.print();
}

/// `amv rid-conc <out.ndjson> <runs> <seed> <ops: max|all>`: concurrent callers on one
/// AtomicReloadId, Begin/End logged; validated by Trace_ReloadId.tla.
pub fn concurrent(args: &[String]) {
    let out = &args[0];
    let runs: usize = args[1].parse().unwrap();
    let seed: u64 = args[2].parse().unwrap();
    let all = args[3] == "all";
    let maxid = 6;
    let ids = Arc::new(real_ids(maxid));
    let mut rng = StdRng::seed_from_u64(seed);
    let names: &[&str] = if all { &["update", "fetch_max", "swap", "store", "load"] } else { &["update", "update", "update", "load"] };
    trace::enable();
    trace::take();
    let mut lines = Vec::new();
    for run in 0..runs {
        let nthreads = rng.gen_range(2..=4);
        let calls = rng.gen_range(1..=3);
        let plans: Vec<Vec<(String, usize)>> = (0..nthreads)
            .map(|_| {
                (0..calls)
                    .map(|_| (names[rng.gen_range(0..names.len())].to_string(), rng.gen_range(0..=maxid)))
                    .collect()
            })
            .collect();
        trace::emit(json!({"ev":"Reset","run":run,"th":"main"}));
        let a = Arc::new(AtomicReloadId::new());
        let barrier = Arc::new(std::sync::Barrier::new(nthreads));
        let hs: Vec<_> = plans
            .into_iter()
            .enumerate()
            .map(|(i, plan)| {
                let a = a.clone();
                let ids = ids.clone();
                let b = barrier.clone();
                std::thread::spawn(move || {
                    trace::set_thread(&format!("t{}", i + 1));
                    b.wait();
                    for (op, arg) in plan {
                        trace::emit(json!({"ev":"Begin","op":op,"arg":arg}));
                        let r = apply(&a, &ids, &op, arg);
                        trace::emit(json!({"ev":"End","ret":r}));
                    }
                })
            })
            .collect();
        for h in hs {
            h.join().unwrap();
        }
        trace::emit(json!({"ev":"Final","cur":idx(&ids, a.load()),"th":"main"}));
        // only what the racing threads and the driver logged: the reloader of the cache that produced the ids
        // may still be saying goodbye (its hook events have nothing to do with this trace)
        lines.extend(trace::take().into_iter().filter(|l| l.get("hook").is_none() && l["th"] != "R"));
    }
    trace::write_ndjson(out, &lines).unwrap();
    trace::disable();
    // the same invariants evaluated directly (OneTruePerGrowth, MaxFinal) on many more races than
    // can be traced: 4 threads offer ids to one cell at the same instant
    let mut bad = Vec::new();
    let rounds = 60_000usize;
    let cell = Arc::new(AtomicReloadId::new());
    let start = Arc::new(std::sync::atomic::AtomicUsize::new(0));
    let trues = Arc::new(std::sync::atomic::AtomicUsize::new(0));
    let offers: Arc<Vec<[usize; 4]>> = Arc::new((0..rounds).map(|_| [rng.gen_range(1..=maxid), rng.gen_range(1..=maxid), rng.gen_range(1..=maxid), rng.gen_range(1..=maxid)]).collect());
    let done = Arc::new(std::sync::atomic::AtomicUsize::new(0));
    // who was told TRUE in the current round (bit t)
    let told = Arc::new(std::sync::atomic::AtomicUsize::new(0));
    let hs: Vec<_> = (0..4).map(|t| {
        let (cell, start, trues, offers, ids, done) = (cell.clone(), start.clone(), trues.clone(), offers.clone(), ids.clone(), done.clone());
        let told = told.clone();
        std::thread::spawn(move || {
            for r in 0..offers.len() {
                while start.load(std::sync::atomic::Ordering::Acquire) < r + 1 {
                    std::hint::spin_loop();
                }
                if cell.update(ids[offers[r][t]]) {
                    trues.fetch_add(1, std::sync::atomic::Ordering::SeqCst);
                    told.fetch_or(1 << t, std::sync::atomic::Ordering::SeqCst);
                }
                done.fetch_add(1, std::sync::atomic::Ordering::SeqCst);
            }
        })
    }).collect();
    for r in 0..rounds {
        cell.store(ids[0]);
        trues.store(0, std::sync::atomic::Ordering::SeqCst);
        told.store(0, std::sync::atomic::Ordering::SeqCst);
        done.store(0, std::sync::atomic::Ordering::SeqCst);
        start.store(r + 1, std::sync::atomic::Ordering::Release);
        while done.load(std::sync::atomic::Ordering::SeqCst) < 4 {
            std::hint::spin_loop();
        }
        let max = *offers[r].iter().max().unwrap();
        let fin = idx(&ids, cell.load());
        let t = trues.load(std::sync::atomic::Ordering::SeqCst);
        // every TRUE is a strict growth of a max-register that ends at `max`: between 1 and the number of distinct offers <= max
        let mut distinct: Vec<usize> = offers[r].to_vec();
        distinct.sort();
        distinct.dedup();
        if fin != max as i64 || t < 1 || t > distinct.len() {
            if bad.len() < 5 {
                bad.push(json!({"offers":offers[r],"final":fin,"trues":t}));
            }
        }
        // the growth to the maximum happens exactly once, by a caller that offered the maximum: exactly one of
        // those callers is told TRUE (a growth is neither lost nor reported twice)
        let bits = told.load(std::sync::atomic::Ordering::SeqCst);
        let max_true = (0..4).filter(|t| offers[r][*t] == max && bits & (1 << t) != 0).count();
        if max_true != 1 && bad.len() < 5 {
            bad.push(json!({"offers":offers[r],"final":fin,"trues":t,"told_true_among_those_offering_the_maximum":max_true}));
        }
        // same id offered by all: exactly one TRUE
        if distinct.len() == 1 && t != 1 && bad.len() < 5 {
            bad.push(json!({"offers":offers[r],"final":fin,"trues":t,"same_id":true}));
        }
    }
    for h in hs {
        h.join().unwrap();
    }
    println!("REPORT {}", json!({"runs":runs,"lines":lines.len(),"fast_rounds":rounds,"fast_violations":bad}));
}
