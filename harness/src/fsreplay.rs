//! C05 / C12 end to end on the REAL FileSystem source and its inotify watcher: behaviours of
//! world W3f (every edit is notified by the watcher itself) generated from AssetCache.tla.
use crate::nodes::{content_bytes, set_scripts, top_err_json, HasData};
use crate::{trace, with_compound, with_storable, Report};
use assets_manager::AssetCache;
use serde_json::{json, Value};

fn normal(v: &Value) -> String {
    v.to_string()
}

/// `amv fs-replay <cases.ndjson> <workdir>`
pub fn main(args: &[String]) {
    let cases = crate::read_cases(&args[0]);
    let work = std::path::PathBuf::from(format!("{}/fsr-{}", args[1], std::process::id()));
    let mut rep = Report::default();
    trace::enable();
    if !trace::HAS_HOOKS {
        rep.notes.push("hooks absent: cannot synchronise on the watcher's events".into());
        rep.print();
        return;
    }
    for (ci, beh) in cases.iter().enumerate() {
        rep.cases += 1;
        let steps = beh.as_array().unwrap();
        let world = &steps[0];
        set_scripts(&world["scripts"]);
        let root = work.join(format!("c{ci}"));
        std::fs::create_dir_all(&root).unwrap();
        let path_of = |id: &str, ext: &str| {
            let mut p = root.clone();
            for c in id.split('.') {
                p.push(c);
            }
            if !ext.is_empty() {
                p.set_extension(ext);
            }
            p
        };
        for f in world["src"].as_array().unwrap() {
            std::fs::write(path_of(f["id"].as_str().unwrap(), f["ext"].as_str().unwrap()), content_bytes(&f["c"]).unwrap()).unwrap();
        }
        trace::take();
        let cache = match AssetCache::new(&root) {
            Ok(c) => c,
            Err(e) => {
                rep.mismatch(json!({"what": format!("AssetCache::new failed: {e}")}));
                continue;
            }
        };
        let keys: Vec<(String, String)> = world["keys"].as_array().unwrap().iter()
            .map(|k| (k["ty"].as_str().unwrap().to_string(), k["id"].as_str().unwrap().to_string())).collect();
        let mut bad: Option<Value> = None;
        std::thread::sleep(std::time::Duration::from_millis(30)); // let the watcher settle
        for (i, st) in steps.iter().enumerate().skip(1) {
            rep.checks += 1;
            let s = &st["step"];
            let (ty, id) = (s["ty"].as_str().unwrap_or(""), s["id"].as_str().unwrap_or(""));
            if st["d8"] == true || st["od"] == true {
                break;
            }
            match s["op"].as_str().unwrap() {
                "load" => {
                    let r = with_compound!(ty, T => cache.load::<T>(id).map(|h| h.read().data()).map_err(|e| top_err_json(&e)), panic!("type"));
                    let ok = r.is_ok();
                    if ok != (s["ok"] == true) || (ok && normal(&r.clone().unwrap()) != normal(&s["val"])) {
                        // error payloads differ from the in-memory source (real io errors): compare success and value only
                        bad = Some(json!({"step":i,"what":"result of load on the real file system","got":format!("{r:?}"),"expected":s}));
                        break;
                    }
                }
                "hot_reload" => cache.hot_reload(),
                "editn" => {
                    let ext = s["ext"].as_str().unwrap();
                    let mark = trace::len();
                    let p = path_of(id, ext);
                    if s["c"].get("nil").is_some() {
                        let _ = std::fs::remove_file(&p);
                    } else {
                        std::fs::write(&p, content_bytes(&s["c"]).unwrap()).unwrap();
                    }
                    let flips = s["flips"] == true;
                    // the watcher must name the file, and its directory when the file (dis)appears: C12 end to end
                    let named = trace::wait_until(std::time::Duration::from_secs(3), |lines| {
                        let mut file = false;
                        let mut dir = !flips;
                        let mut last_event = 0;
                        let mut last_end = 0;
                        for (k, l) in lines.iter().enumerate().skip(mark) {
                            if l["ev"] == "Event" {
                                last_event = k;
                                let e = &l["entry"];
                                file |= e["k"] == "file" && e["id"] == id && e["ext"] == ext;
                                dir |= e["k"] == "dir" && e["id"] == "";
                            }
                            if l["ev"] == "EventsEnd" {
                                last_end = k;
                            }
                        }
                        file && dir && last_end > last_event
                    });
                    if !named {
                        bad = Some(json!({"step":i,"what":"the file watcher did not name the edited file (and its directory on create/delete) within 3 s",
                            "id":id,"ext":ext,"flips":flips}));
                        break;
                    }
                    // trailing notifications of the same edit
                    std::thread::sleep(std::time::Duration::from_millis(25));
                }
                other => panic!("fs-replay: unsupported step {other}"),
            }
            // values (not reload ids: the OS may notify one edit several times)
            let mut got = Vec::new();
            for (kty, kid) in keys.iter() {
                let v = with_storable!(kty.as_str(), T => cache.get_cached::<T>(kid).map(|h| h.read().data()), panic!("type"));
                if let Some(v) = v {
                    got.push(json!({"ty":kty,"id":kid,"val":v}).to_string());
                }
            }
            got.sort();
            let mut exp: Vec<String> = st["snap"].as_array().unwrap().iter().map(|e| json!({"ty":e["ty"],"id":e["id"],"val":e["val"]}).to_string()).collect();
            exp.sort();
            if got != exp {
                bad = Some(json!({"step":i,"what":"cached values on the real file system differ from AssetCache.tla","got":got,"expected":exp}));
                break;
            }
            // reload ids: at least the specified number of rewrites
            for e in st["snap"].as_array().unwrap() {
                let (kty, kid) = (e["ty"].as_str().unwrap(), e["id"].as_str().unwrap());
                let rid = with_storable!(kty, T => cache.get_cached::<T>(kid).map(|h| crate::front::rid_of(h.last_reload_id())), panic!("type"));
                if rid.unwrap_or(0) < e["rid"].as_u64().unwrap() {
                    bad = Some(json!({"step":i,"what":"fewer rewrites than notified changes require","key":[kty,kid],"rid":rid,"expected_at_least":e["rid"]}));
                }
            }
            if bad.is_some() {
                break;
            }
        }
        drop(cache);
        trace::wait_until(std::time::Duration::from_secs(3), |lines| lines.iter().any(|l| l["ev"] == "Exit"));
        let _ = std::fs::remove_dir_all(&root);
        if let Some(mut b) = bad {
            b["behaviour"] = beh.clone();
            rep.mismatch(b);
            if rep.mismatches.len() >= 12 {
                // every further mismatch of this kind costs seconds of waiting: the verdict is clear
                rep.notes.push("stopped after 12 mismatches".into());
                break;
            }
        }
    }
    let _ = std::fs::remove_dir_all(&work);
    rep.print();
}
