//! C17: OnceInitCell against spec/OnceInit.tla.
use crate::{trace, Report};
use assets_manager::OnceInitCell;
use rand::{rngs::StdRng, Rng, SeedableRng};
use serde_json::json;
use std::sync::atomic::{AtomicI64, AtomicU64, Ordering};
use std::sync::Arc;

static SEED_LIVE: AtomicI64 = AtomicI64::new(0);
static SEED_DROPS: AtomicU64 = AtomicU64::new(0);
static VAL_LIVE: AtomicI64 = AtomicI64::new(0);
static VAL_DROPS: AtomicU64 = AtomicU64::new(0);

/// a seed with a destructor (the `needs_drop` path)
pub struct Seed(pub u32, pub bool);
impl Seed {
    fn new(n: u32, panic_on_drop: bool) -> Seed {
        SEED_LIVE.fetch_add(1, Ordering::SeqCst);
        Seed(n, panic_on_drop)
    }
}
impl Drop for Seed {
    fn drop(&mut self) {
        SEED_LIVE.fetch_sub(1, Ordering::SeqCst);
        SEED_DROPS.fetch_add(1, Ordering::SeqCst);
        if self.1 && !std::thread::panicking() {
            panic!("seed destructor panics");
        }
    }
}
pub struct Value(pub u32);
impl Value {
    fn new(n: u32) -> Value {
        VAL_LIVE.fetch_add(1, Ordering::SeqCst);
        Value(n)
    }
}
impl Drop for Value {
    fn drop(&mut self) {
        VAL_LIVE.fetch_sub(1, Ordering::SeqCst);
        VAL_DROPS.fetch_add(1, Ordering::SeqCst);
    }
}

fn reset() {
    for c in [&SEED_LIVE, &VAL_LIVE] {
        c.store(0, Ordering::SeqCst);
    }
    for c in [&SEED_DROPS, &VAL_DROPS] {
        c.store(0, Ordering::SeqCst);
    }
}

/// One attempt with a prescribed outcome on either seed type. Returns "ref:<n>" | "err" | "panic".
fn attempt_drop(cell: &OnceInitCell<Seed, Value>, outcome: &str, calls: &AtomicU64) -> String {
    let r = std::panic::catch_unwind(std::panic::AssertUnwindSafe(|| {
        cell.get_or_try_init(|s: &mut Seed| {
            calls.fetch_add(1, Ordering::SeqCst);
            s.0 += 1; // the initialiser may mutate the seed
            match outcome {
                "ok" => Ok(Value::new(s.0)),
                "err" => Err("no"),
                _ => panic!("initialiser panics"),
            }
        })
        .map(|v| v as *const Value as usize)
    }));
    match r {
        Ok(Ok(p)) => format!("ref:{p}"),
        Ok(Err(_)) => "err".into(),
        Err(_) => "panic".into(),
    }
}
fn attempt_nodrop(cell: &OnceInitCell<u32, Value>, outcome: &str, calls: &AtomicU64) -> String {
    let r = std::panic::catch_unwind(std::panic::AssertUnwindSafe(|| {
        cell.get_or_try_init(|s: &mut u32| {
            calls.fetch_add(1, Ordering::SeqCst);
            *s += 1;
            match outcome {
                "ok" => Ok(Value::new(*s)),
                "err" => Err("no"),
                _ => panic!("initialiser panics"),
            }
        })
        .map(|v| v as *const Value as usize)
    }));
    match r {
        Ok(Ok(p)) => format!("ref:{p}"),
        Ok(Err(_)) => "err".into(),
        Err(_) => "panic".into(),
    }
}

static ZST_LIVE: AtomicI64 = AtomicI64::new(0);
static ZST_DROPS: AtomicU64 = AtomicU64::new(0);
/// a zero-sized seed that still has a destructor (a token / guard)
pub struct Token;
impl Token {
    fn new() -> Token {
        ZST_LIVE.fetch_add(1, Ordering::SeqCst);
        Token
    }
}
impl Drop for Token {
    fn drop(&mut self) {
        ZST_LIVE.fetch_sub(1, Ordering::SeqCst);
        ZST_DROPS.fetch_add(1, Ordering::SeqCst);
    }
}

fn zst_cases(rep: &mut Report) {
    for outcomes in [vec!["ok"], vec!["err", "ok"], vec!["panic", "err"], vec![], vec!["ok", "ok"]] {
        rep.cases += 1;
        ZST_LIVE.store(0, Ordering::SeqCst);
        ZST_DROPS.store(0, Ordering::SeqCst);
        reset();
        let cell = OnceInitCell::<Token, Value>::new(Token::new());
        let mut done = false;
        for o in outcomes.iter() {
            let _ = std::panic::catch_unwind(std::panic::AssertUnwindSafe(|| {
                cell.get_or_try_init(|_t: &mut Token| match *o {
                    "ok" => Ok(Value::new(1)),
                    "err" => Err(()),
                    _ => panic!("initialiser panics"),
                })
                .map(|_| ())
            }));
            done |= *o == "ok";
            let want = if done { (0, 1) } else { (1, 0) };
            if (ZST_LIVE.load(Ordering::SeqCst), VAL_LIVE.load(Ordering::SeqCst)) != want {
                rep.mismatch(json!({"what":"zero-sized seed with a destructor: not exactly one of seed and value alive","outcomes":outcomes,
                    "live_seeds":ZST_LIVE.load(Ordering::SeqCst),"live_values":VAL_LIVE.load(Ordering::SeqCst)}));
            }
        }
        drop(cell);
        if ZST_DROPS.load(Ordering::SeqCst) != 1 || ZST_LIVE.load(Ordering::SeqCst) != 0 || VAL_LIVE.load(Ordering::SeqCst) != 0 {
            rep.mismatch(json!({"what":"zero-sized seed with a destructor: not dropped exactly once","outcomes":outcomes,"drops":ZST_DROPS.load(Ordering::SeqCst)}));
        }
    }
}

/// `get()` on other threads while one thread initialises: the first `Some` a reader sees is the
/// complete value (the cell is published only after the value is in place).
fn publish_race(rep: &mut Report) {
    const MAGIC: u64 = 0xA5A5_5A5A_DEAD_BEEF;
    for round in 0..300 {
        rep.cases += 1;
        // a seed with drop glue (heap buffer) and a value of 2 KiB stored in place of it
        let cell = Arc::new(OnceInitCell::<Vec<u64>, [u64; 256]>::new(vec![7u64; 8 + round % 5]));
        let go = Arc::new(std::sync::Barrier::new(4));
        let readers: Vec<_> = (0..3).map(|_| {
            let (cell, go) = (cell.clone(), go.clone());
            std::thread::spawn(move || {
                go.wait();
                let t0 = std::time::Instant::now();
                loop {
                    if let Some(v) = cell.get() {
                        let mut bad = 0usize;
                        for w in v.iter() {
                            if unsafe { std::ptr::read_volatile(w) } != MAGIC {
                                bad += 1;
                            }
                        }
                        return bad;
                    }
                    if t0.elapsed() > std::time::Duration::from_secs(5) {
                        return usize::MAX;
                    }
                    std::hint::spin_loop();
                }
            })
        }).collect();
        go.wait();
        let r = cell.get_or_init(|seed: &mut Vec<u64>| {
            seed.push(1);
            [MAGIC; 256]
        });
        let own_ok = r.iter().all(|w| *w == MAGIC);
        let bads: Vec<usize> = readers.into_iter().map(|h| h.join().unwrap_or(usize::MAX - 1)).collect();
        rep.checks += 1;
        if !own_ok || bads.iter().any(|b| *b != 0) {
            rep.mismatch(json!({"what":"a concurrent get() returned a reference before the value was in place (or never saw the value)",
                "round":round,"wrong_words_per_reader":bads.iter().map(|b| if *b >= usize::MAX - 1 { -1i64 } else { *b as i64 }).collect::<Vec<_>>(),"initialiser_sees_value":own_ok}));
            if rep.mismatches.len() > 5 {
                return;
            }
        }
    }
}

/// The same on the other code path (a seed WITHOUT drop glue, `get_or_try_init_no_drop`): pollers of `get()` and
/// threads waiting in `get_or_init` are all handed the complete value, never the seed's bytes.
fn publish_race_nodrop(rep: &mut Report) {
    const MAGIC: u64 = 0xA5A5_5A5A_DEAD_BEEF;
    const SEEDPAT: u64 = 0x5EED_5EED_5EED_5EED;
    for round in 0..300 {
        rep.cases += 1;
        let cell = Arc::new(OnceInitCell::<[u64; 256], [u64; 256]>::new([SEEDPAT; 256]));
        let go = Arc::new(std::sync::Barrier::new(5));
        let count = |v: &[u64; 256]| v.iter().filter(|w| unsafe { std::ptr::read_volatile(*w) } != MAGIC).count();
        let mut hs: Vec<std::thread::JoinHandle<usize>> = (0..2).map(|_| {
            let (cell, go) = (cell.clone(), go.clone());
            std::thread::spawn(move || {
                go.wait();
                let t0 = std::time::Instant::now();
                loop {
                    if let Some(v) = cell.get() {
                        return count(v);
                    }
                    if t0.elapsed() > std::time::Duration::from_secs(5) {
                        return usize::MAX;
                    }
                    std::hint::spin_loop();
                }
            })
        }).collect();
        hs.extend((0..2).map(|_| {
            let (cell, go) = (cell.clone(), go.clone());
            std::thread::spawn(move || {
                go.wait();
                count(cell.get_or_init(|_seed: &mut [u64; 256]| [MAGIC; 256]))
            })
        }));
        go.wait();
        let own = count(cell.get_or_init(|_seed: &mut [u64; 256]| [MAGIC; 256]));
        let bads: Vec<usize> = hs.into_iter().map(|h| h.join().unwrap_or(usize::MAX - 1)).collect();
        rep.checks += 1;
        if own != 0 || bads.iter().any(|b| *b != 0) {
            rep.mismatch(json!({"what":"seed without destructor: a concurrent get() / get_or_init() handed out a reference before the value was in place (or never saw the value)",
                "round":round,"wrong_words_per_thread":bads.iter().map(|b| if *b >= usize::MAX - 1 { -1i64 } else { *b as i64 }).collect::<Vec<_>>(),"wrong_words_own":own}));
            if rep.mismatches.len() > 5 {
                return;
            }
        }
    }
}

/// A cell that is dropped WHILE its thread unwinds (a local of the panicking frame, a bystander of an
/// unrelated panic, the last `Arc` owner panicking): it still owns its seed and drops it exactly once.
fn unwind_drops(rep: &mut Report) {
    let quiet = std::panic::take_hook();
    std::panic::set_hook(Box::new(|_| {}));
    for shape in ["local cell, panicking initialiser", "bystander of an unrelated panic", "initialised cell dropped while unwinding", "last Arc owner panics"] {
        rep.cases += 1;
        reset();
        match shape {
            "local cell, panicking initialiser" => {
                let _ = std::thread::spawn(|| {
                    let cell = OnceInitCell::<Seed, Value>::new(Seed::new(0, false));
                    let _ = cell.get_or_init(|_s: &mut Seed| -> Value { panic!("initialiser panics") });
                }).join();
            }
            "bystander of an unrelated panic" => {
                let _ = std::thread::spawn(|| {
                    let _cell = OnceInitCell::<Seed, Value>::new(Seed::new(0, false));
                    panic!("unrelated");
                }).join();
            }
            "initialised cell dropped while unwinding" => {
                let _ = std::thread::spawn(|| {
                    let cell = OnceInitCell::<Seed, Value>::new(Seed::new(0, false));
                    let _ = cell.get_or_init(|s: &mut Seed| Value::new(s.0));
                    panic!("unrelated");
                }).join();
            }
            _ => {
                let cell = Arc::new(OnceInitCell::<Seed, Value>::new(Seed::new(0, false)));
                let hs: Vec<_> = (0..4).map(|_| {
                    let c = cell.clone();
                    std::thread::spawn(move || {
                        let _ = c.get_or_init(|_s: &mut Seed| -> Value { panic!("initialiser panics") });
                    })
                }).collect();
                drop(cell);
                for h in hs {
                    let _ = h.join();
                }
            }
        }
        rep.checks += 1;
        let (sl, vl, sd, vd) = (SEED_LIVE.load(Ordering::SeqCst), VAL_LIVE.load(Ordering::SeqCst), SEED_DROPS.load(Ordering::SeqCst), VAL_DROPS.load(Ordering::SeqCst));
        let want_vd = if shape == "initialised cell dropped while unwinding" { 1 } else { 0 };
        if sl != 0 || vl != 0 || sd != 1 || vd != want_vd {
            rep.mismatch(json!({"what":"a cell dropped while its thread unwinds did not drop its seed / value exactly once",
                "shape":shape,"live_seeds":sl,"live_values":vl,"seed_drops":sd,"value_drops":vd}));
        }
    }
    std::panic::set_hook(quiet);
}

/// racing threads on a seed WITHOUT destructor (the other code path)
fn nodrop_races(rep: &mut Report, rng: &mut StdRng) {
    for _ in 0..150 {
        rep.cases += 1;
        reset();
        let k = rng.gen_range(2..=4);
        let cell = Arc::new(OnceInitCell::<u32, Value>::new(0));
        let oks = Arc::new(AtomicU64::new(0));
        let inside = Arc::new(AtomicI64::new(0));
        let overlap = Arc::new(AtomicU64::new(0));
        let barrier = Arc::new(std::sync::Barrier::new(k));
        let hs: Vec<_> = (0..k).map(|_| {
            let (cell, oks, inside, overlap, barrier) = (cell.clone(), oks.clone(), inside.clone(), overlap.clone(), barrier.clone());
            std::thread::spawn(move || {
                barrier.wait();
                let r = cell.get_or_try_init(|s: &mut u32| {
                    if inside.fetch_add(1, Ordering::SeqCst) != 0 {
                        overlap.fetch_add(1, Ordering::SeqCst);
                    }
                    *s += 1;
                    std::thread::sleep(std::time::Duration::from_micros(300));
                    inside.fetch_sub(1, Ordering::SeqCst);
                    oks.fetch_add(1, Ordering::SeqCst);
                    Ok::<_, ()>(Value::new(*s))
                });
                r.map(|v| (v as *const Value as usize, v.0)).ok()
            })
        }).collect();
        let mut died = 0;
        let got: std::collections::BTreeSet<_> = hs.into_iter().filter_map(|h| match h.join() {
            Ok(r) => r,
            Err(_) => {
                died += 1;
                None
            }
        }).collect();
        rep.checks += 1;
        if died > 0 {
            rep.mismatch(json!({"what":"seed without destructor: a thread racing on get_or_try_init with an initialiser that does not panic panicked","threads":died}));
            continue;
        }
        if oks.load(Ordering::SeqCst) != 1 || overlap.load(Ordering::SeqCst) != 0 || got.len() != 1 {
            rep.mismatch(json!({"what":"seed without destructor: the successful initialiser did not run exactly once, alone",
                "runs":oks.load(Ordering::SeqCst),"overlapping_runs":overlap.load(Ordering::SeqCst),"distinct_results":got.len()}));
        }
        drop(cell);
        if VAL_LIVE.load(Ordering::SeqCst) != 0 {
            rep.mismatch(json!({"what":"seed without destructor: values leaked or double-dropped","live":VAL_LIVE.load(Ordering::SeqCst)}));
        }
    }
}

/// `amv once-replay <seed>`: every outcome sequence up to length 4 on both code paths,
/// then K-thread races.
pub fn main(args: &[String]) {
    let seed: u64 = args[0].parse().unwrap();
    let mut rep = Report::default();
    std::panic::set_hook(Box::new(|i| {
        if std::thread::current().name() == Some("main") && !i.to_string().contains("initialiser panics") && !i.to_string().contains("seed destructor") {
            eprintln!("{i}");
        }
    }));
    let outs = ["ok", "err", "panic"];
    // sequential outcome sequences: the specification's expected view after each attempt
    for len in 0..=4usize {
        for code in 0..3usize.pow(len as u32) {
            for needs_drop in [true, false] {
                for seed_panics in [false, true] {
                    if seed_panics && !needs_drop {
                        continue;
                    }
                    rep.cases += 1;
                    reset();
                    let seq: Vec<&str> = (0..len).map(|i| outs[(code / 3usize.pow(i as u32)) % 3]).collect();
                    let calls = AtomicU64::new(0);
                    let mut done = false;
                    let mut first_ref: Option<String> = None;
                    let mut expected_calls = 0;
                    let mut bad = None;
                    macro_rules! run {
                        ($cell:expr, $attempt:ident, $getter:expr) => {{
                            let cell = $cell;
                            for (i, o) in seq.iter().enumerate() {
                                rep.checks += 1;
                                let got = $attempt(&cell, o, &calls);
                                if !done {
                                    expected_calls += 1;
                                }
                                let want_ref = done || *o == "ok";
                                let seed_dtor_panics_now = !done && *o == "ok" && seed_panics;
                                if !done && *o == "ok" {
                                    done = true;
                                }
                                if seed_dtor_panics_now {
                                    // the seed's destructor panics after the value is in place: the call unwinds, the cell is initialised
                                    if got != "panic" {
                                        bad = Some(format!("attempt {i}: a panicking seed destructor did not unwind to the caller"));
                                    }
                                } else if want_ref {
                                    if !got.starts_with("ref:") {
                                        bad = Some(format!("attempt {i}: expected a reference, got {got}"));
                                    } else if let Some(f) = &first_ref {
                                        if *f != got {
                                            bad = Some(format!("attempt {i}: a different reference than the first one"));
                                        }
                                    } else {
                                        first_ref = Some(got.clone());
                                    }
                                } else if got != *o {
                                    bad = Some(format!("attempt {i}: outcome {o} reported as {got}"));
                                }
                                if calls.load(Ordering::SeqCst) != expected_calls {
                                    bad = Some(format!("attempt {i}: the initialiser ran {} times, expected {expected_calls}", calls.load(Ordering::SeqCst)));
                                }
                                if $getter(&cell).is_some() != done {
                                    bad = Some(format!("attempt {i}: get() is {:?} but the cell is {}", $getter(&cell).is_some(), if done { "initialised" } else { "empty" }));
                                }
                                // exactly one of the seed and the value exists
                                let (sl, vl) = (SEED_LIVE.load(Ordering::SeqCst), VAL_LIVE.load(Ordering::SeqCst));
                                if needs_drop && (sl, vl) != if done { (0, 1) } else { (1, 0) } {
                                    bad = Some(format!("attempt {i}: live seeds {sl}, live values {vl}, initialised {done}"));
                                }
                                if !needs_drop && vl != if done { 1 } else { 0 } {
                                    bad = Some(format!("attempt {i}: live values {vl}, initialised {done}"));
                                }
                            }
                            // the seed's destructor may panic when an uninitialised cell is dropped
                            let _ = std::panic::catch_unwind(std::panic::AssertUnwindSafe(move || drop(cell)));
                        }};
                    }
                    if needs_drop {
                        run!(OnceInitCell::<Seed, Value>::new(Seed::new(0, seed_panics)), attempt_drop, |c: &OnceInitCell<Seed, Value>| c.get().map(|_| ()));
                    } else {
                        run!(OnceInitCell::<u32, Value>::new(0), attempt_nodrop, |c: &OnceInitCell<u32, Value>| c.get().map(|_| ()));
                    }
                    let (sl, vl, sd, vd) = (SEED_LIVE.load(Ordering::SeqCst), VAL_LIVE.load(Ordering::SeqCst),
                                            SEED_DROPS.load(Ordering::SeqCst), VAL_DROPS.load(Ordering::SeqCst));
                    if sl != 0 || vl != 0 || (needs_drop && sd != 1) || vd != if done { 1 } else { 0 } {
                        bad = Some(format!("after dropping the cell: live seeds {sl}, live values {vl}, seed drops {sd}, value drops {vd}"));
                    }
                    if let Some(b) = bad {
                        rep.mismatch(json!({"what": b, "outcomes": seq, "needs_drop": needs_drop, "seed_destructor_panics": seed_panics}));
                    }
                }
            }
        }
    }
    // with_value / Default
    {
        rep.cases += 1;
        reset();
        let c = OnceInitCell::<Seed, Value>::with_value(Value::new(9));
        let calls = AtomicU64::new(0);
        if c.get().map(|v| v.0) != Some(9) || !attempt_drop(&c, "panic", &calls).starts_with("ref:") || calls.load(Ordering::SeqCst) != 0 {
            rep.mismatch(json!({"what":"with_value is not an initialised cell"}));
        }
        drop(c);
        if VAL_LIVE.load(Ordering::SeqCst) != 0 || VAL_DROPS.load(Ordering::SeqCst) != 1 {
            rep.mismatch(json!({"what":"with_value: the value is not dropped exactly once"}));
        }
    }
    zst_cases(&mut rep);
    // K threads racing; outcomes prescribed per thread; gated so that they overlap
    let mut rng = StdRng::seed_from_u64(seed);
    publish_race(&mut rep);
    publish_race_nodrop(&mut rep);
    unwind_drops(&mut rep);
    nodrop_races(&mut rep, &mut rng);
    trace::enable();
    for round in 0..300 {
        rep.cases += 1;
        reset();
        let k = rng.gen_range(2..=4);
        let cell = Arc::new(OnceInitCell::<Seed, Value>::new(Seed::new(0, false)));
        let calls = Arc::new(AtomicU64::new(0));
        let oks = Arc::new(AtomicU64::new(0));
        let barrier = Arc::new(std::sync::Barrier::new(k));
        let plans: Vec<Vec<&'static str>> = (0..k).map(|_| (0..rng.gen_range(1..=3)).map(|_| outs[rng.gen_range(0..3usize)]).collect()).collect();
        let hs: Vec<_> = plans.iter().cloned().enumerate().map(|(i, plan)| {
            let (cell, calls, oks, barrier) = (cell.clone(), calls.clone(), oks.clone(), barrier.clone());
            std::thread::spawn(move || {
                trace::set_thread(&format!("t{}", i + 1));
                barrier.wait();
                let mut refs = Vec::new();
                for o in plan {
                    // get never blocks
                    let g0 = std::time::Instant::now();
                    let _ = cell.get();
                    let get_time = g0.elapsed();
                    let r = std::panic::catch_unwind(std::panic::AssertUnwindSafe(|| {
                        cell.get_or_try_init(|s: &mut Seed| {
                            calls.fetch_add(1, Ordering::SeqCst);
                            s.0 += 1;
                            std::thread::sleep(std::time::Duration::from_micros(200));
                            match o {
                                "ok" => {
                                    oks.fetch_add(1, Ordering::SeqCst);
                                    Ok(Value::new(s.0))
                                }
                                "err" => Err(()),
                                _ => panic!("initialiser panics"),
                            }
                        }).map(|v| (v as *const Value as usize, v.0))
                    }));
                    if let Ok(Ok(p)) = r {
                        refs.push(p);
                    }
                    if get_time > std::time::Duration::from_millis(50) {
                        refs.push((0, 0));
                    }
                }
                refs
            })
        }).collect();
        let mut all = Vec::new();
        for h in hs {
            all.extend(h.join().unwrap());
        }
        rep.checks += 1;
        let ok_runs = oks.load(Ordering::SeqCst);
        let distinct: std::collections::BTreeSet<_> = all.iter().cloned().collect();
        let any_ok_planned = plans.iter().flatten().any(|o| *o == "ok");
        let mut bad = None;
        if ok_runs > 1 {
            bad = Some(format!("the successful initialiser ran {ok_runs} times"));
        }
        if distinct.len() > 1 {
            bad = Some(format!("callers got {} different references/values", distinct.len()));
        }
        if distinct.contains(&(0, 0)) {
            bad = Some("get() blocked for more than 50 ms".into());
        }
        if cell.get().is_some() != (ok_runs == 1) {
            bad = Some("get() disagrees with whether an initialiser succeeded".into());
        }
        let (sl, vl) = (SEED_LIVE.load(Ordering::SeqCst), VAL_LIVE.load(Ordering::SeqCst));
        if (sl, vl) != if ok_runs == 1 { (0, 1) } else { (1, 0) } {
            bad = Some(format!("live seeds {sl}, live values {vl} after the race (initialised: {})", ok_runs == 1));
        }
        drop(cell);
        let (sl, vl, sd, vd) = (SEED_LIVE.load(Ordering::SeqCst), VAL_LIVE.load(Ordering::SeqCst), SEED_DROPS.load(Ordering::SeqCst), VAL_DROPS.load(Ordering::SeqCst));
        if sl != 0 || vl != 0 || sd != 1 || vd != ok_runs {
            bad = Some(format!("after the cell is dropped: live seeds {sl}, live values {vl}, seed drops {sd}, value drops {vd}"));
        }
        let _ = (round, any_ok_planned);
        if let Some(b) = bad {
            rep.mismatch(json!({"what": b, "threads": k, "plans": plans}));
        }
    }
    let _ = std::panic::take_hook();
    rep.print();
}
