//! C01 / C13: concurrent load / get_cached / get_or_insert / contains on overlapping keys
//! of one real cache, recorded for validation against spec/CacheRace.tla.
use crate::assets::Leaf;
use crate::mem::{Gate, MemSource};
use crate::nodes::{HasData, Stor};
use crate::trace;
use assets_manager::{AssetCache, Handle};
use rand::{rngs::StdRng, Rng, SeedableRng};
use serde_json::{json, Value};
use std::collections::{HashMap, HashSet};

fn tok_of(h: &Handle<Leaf<0>>) -> u64 {
    h.read().0.tok
}

fn project(lines: Vec<Value>, l0: &str) -> Vec<Value> {
    // tokens that belong to the modelled calls
    let mut goi_toks = HashSet::new();
    let mut known = HashSet::new();
    for l in lines.iter() {
        if l["ev"] == "Begin" && l["op"] == "goi" {
            goi_toks.insert(l["tok"].as_u64().unwrap());
            known.insert(l["tok"].as_u64().unwrap());
        }
        if l["ev"] == "Produce" && l["th"].as_str().map_or(false, |t| t.starts_with('t')) {
            known.insert(l["tok"].as_u64().unwrap());
        }
    }
    let mut out = Vec::new();
    for l in lines {
        let th = l["th"].as_str().unwrap_or("");
        match l["ev"].as_str() {
            Some("Reset") | Some("DropCache") | Some("Final") => out.push(json!({"ev": l["ev"]})),
            Some("Begin") => out.push(json!({"ev":"Begin","th":th,"op":l["op"],"key":l["key"],"tok":l["tok"]})),
            Some("End") => out.push(json!({"ev":"End","th":th,"tok":l["tok"],"ptr":l["ptr"]})),
            Some("LoadFail") => out.push(json!({"ev":"LoadFail","th":th})),
            Some("Reread") => out.push(json!({"ev":"Reread","key":l["key"],"tok":l["tok"],"ptr":l["ptr"]})),
            Some("Produce") if th.starts_with('t') && !goi_toks.contains(&l["tok"].as_u64().unwrap()) => {
                out.push(json!({"ev":"Produce","th":th,"tok":l["tok"]}))
            }
            Some("Drop") if known.contains(&l["tok"].as_u64().unwrap()) => out.push(json!({"ev":"Drop","tok":l["tok"]})),
            Some("Insert") if l["ty"] == l0 && th.starts_with('t') => {
                out.push(json!({"ev":"Insert","th":th,"key":l["id"],"won":l["won"]}))
            }
            _ => {}
        }
    }
    out
}

/// `amv race-stress <out.ndjson> <seed> <rounds>`
pub fn main(args: &[String]) {
    let out = &args[0];
    let seed: u64 = args[1].parse().unwrap();
    let rounds: usize = args[2].parse().unwrap();
    let mut rng = StdRng::seed_from_u64(seed);
    let l0 = format!("{:?}", std::any::TypeId::of::<Leaf<0>>());
    trace::enable();
    trace::take();
    let mut all = Vec::new();
    let mut stats = json!({"rounds":rounds,"forced_simultaneous_misses":0,"growth_rounds":0,"races_lost":0});
    for round in 0..rounds {
        let hot = round % 2 == 0;
        let src = MemSource::new(hot);
        src.st.lock().unwrap().trace_reads = false;
        src.put("a", "x", b"v1");
        src.put("b", "x", b"v2");
        let nthreads = rng.gen_range(2..=4);
        let ncalls = rng.gen_range(1..=3);
        let force = rng.gen_bool(0.6);
        let growth = round % 5 == 4;
        let plans: Vec<Vec<(&str, &str)>> = (0..nthreads)
            .map(|_| {
                (0..ncalls)
                    .map(|c| {
                        let op = if force && c == 0 { "load" } else { ["load", "load", "get", "goi", "contains"][rng.gen_range(0..5)] };
                        let key = if force && c == 0 { "a" } else { ["a", "a", "b", "z"][rng.gen_range(0..4)] };
                        (op, if op == "goi" && key == "z" { "b" } else { key })
                    })
                    .collect()
            })
            .collect();
        let gate = Gate::new();
        if force {
            src.set_gate("a", "x", gate.clone());
            stats["forced_simultaneous_misses"] = json!(stats["forced_simultaneous_misses"].as_u64().unwrap() + 1);
        }
        trace::emit(json!({"ev":"Reset","th":"main"}));
        let cache = if hot { AssetCache::with_source(src.clone()) } else { AssetCache::without_hot_reloading(src.clone()) };
        std::thread::scope(|sc| {
            let cache = &cache;
            for (i, plan) in plans.iter().enumerate() {
                sc.spawn(move || {
                    trace::set_thread(&format!("t{}", i + 1));
                    let mut held: HashMap<&str, &Handle<Leaf<0>>> = HashMap::new();
                    for (op, key) in plan.iter() {
                        let res: Option<&Handle<Leaf<0>>> = match *op {
                            "load" => {
                                trace::emit(json!({"ev":"Begin","op":"load","key":key,"tok":0}));
                                match cache.load::<Leaf<0>>(key) {
                                    Ok(h) => Some(h),
                                    Err(_) => {
                                        trace::emit(json!({"ev":"LoadFail"}));
                                        None
                                    }
                                }
                            }
                            "get" => {
                                trace::emit(json!({"ev":"Begin","op":"get","key":key,"tok":0}));
                                cache.get_cached::<Leaf<0>>(key)
                            }
                            "goi" => {
                                let v = Leaf::<0>::from_data(json!({"t":"stor","c":5})).unwrap();
                                trace::emit(json!({"ev":"Begin","op":"goi","key":key,"tok":v.0.tok}));
                                Some(cache.get_or_insert::<Leaf<0>>(key, v))
                            }
                            _ => {
                                trace::emit(json!({"ev":"Begin","op":"contains","key":key,"tok":0}));
                                let c = cache.contains::<Leaf<0>>(key);
                                trace::emit(json!({"ev":"End","tok": if c {1} else {0},"ptr":0}));
                                continue;
                            }
                        };
                        match res {
                            Some(h) => {
                                trace::emit(json!({"ev":"End","tok":tok_of(h),"ptr":h as *const _ as usize}));
                                held.entry(key).or_insert(h);
                            }
                            None => trace::emit(json!({"ev":"End","tok":0,"ptr":0})),
                        }
                    }
                    // long-lived handles are read again at the end
                    for (k, h) in held {
                        trace::emit(json!({"ev":"Reread","key":k,"tok":tok_of(h),"ptr":h as *const _ as usize}));
                    }
                });
            }
            if growth {
                sc.spawn(move || {
                    trace::set_thread("g");
                    for i in 0..3000 {
                        let _ = cache.get_or_insert::<Stor>(&format!("g{i}"), Stor::from_data(json!({"t":"stor","c":i})).unwrap());
                    }
                });
            }
            if force {
                let expect = plans.len();
                gate.wait_arrived(expect, std::time::Duration::from_millis(300));
                gate.open();
            }
        });
        if growth {
            stats["growth_rounds"] = json!(stats["growth_rounds"].as_u64().unwrap() + 1);
        }
        trace::emit(json!({"ev":"DropCache","th":"main"}));
        drop(cache);
        trace::emit(json!({"ev":"Final","th":"main"}));
        if hot && trace::HAS_HOOKS {
            trace::wait_until(std::time::Duration::from_secs(5), |ls| ls.iter().any(|l| l["ev"] == "Exit"));
        }
        let lines = trace::take();
        let lost = lines.iter().filter(|l| l["ev"] == "Insert" && l["won"] == false && l["ty"] == l0.as_str()).count();
        stats["races_lost"] = json!(stats["races_lost"].as_u64().unwrap() + lost as u64);
        all.extend(project(lines, &l0));
    }
    trace::write_ndjson(out, &all).unwrap();
    stats["events"] = json!(all.len());
    println!("REPORT {}", stats);
}
