//! C08 / C15 drivers run in a child process: concurrent hot_reload callers, loader
//! threads and event bursts under a progress watchdog.
use crate::assets::{arm_loader, Leaf, LoaderFault};
use crate::mem::MemSource;
use crate::nodes::{set_scripts, HasData, Node};
use crate::trace;
use assets_manager::source::OwnedDirEntry;
use assets_manager::AssetCache;
use rand::{rngs::StdRng, Rng, SeedableRng};
use serde_json::{json, Value};
use std::sync::atomic::{AtomicBool, AtomicU64, Ordering};
use std::sync::Arc;

fn cpu_ticks() -> u64 {
    let s = std::fs::read_to_string("/proc/self/stat").unwrap_or_default();
    // fields after the closing paren of comm: state is #3, utime #14, stime #15
    let rest = s.rsplit(')').next().unwrap_or("");
    let f: Vec<&str> = rest.split_whitespace().collect();
    let u: u64 = f.get(11).and_then(|x| x.parse().ok()).unwrap_or(0);
    let k: u64 = f.get(12).and_then(|x| x.parse().ok()).unwrap_or(0);
    u + k
}

fn thread_ticks(tids: &[u64]) -> u64 {
    let mut t = 0;
    for tid in tids {
        let st = std::fs::read_to_string(format!("/proc/self/task/{tid}/stat")).unwrap_or_default();
        let rest = st.rsplit(')').next().unwrap_or("").to_string();
        let f: Vec<&str> = rest.split_whitespace().collect();
        t += f.get(11).and_then(|x| x.parse::<u64>().ok()).unwrap_or(0) + f.get(12).and_then(|x| x.parse::<u64>().ok()).unwrap_or(0);
    }
    t
}

fn project(lines: Vec<Value>) -> Vec<Value> {
    let mut out = vec![json!({"ev":"Reset"})];
    for l in lines {
        match l["ev"].as_str() {
            Some("Request") | Some("Consume") => out.push(json!({"ev":l["ev"],"th":l["th"],"token":l["token"]})),
            Some("Notify") => out.push(json!({"ev":"Notify","token":l["token"]})),
            Some("End") if l["op"] == "hot_reload" => out.push(json!({"ev":"End","th":l["th"]})),
            _ => {}
        }
    }
    out
}

/// `amv c08-stress <out.ndjson> <seed> <callers> <calls> <mode>`
pub fn c08(args: &[String]) {
    let out = args[0].clone();
    let seed: u64 = args[1].parse().unwrap();
    let callers: usize = args[2].parse().unwrap();
    let calls: usize = args[3].parse().unwrap();
    let mode = args[4].clone();
    // a clique: 14 compounds that all look each other up (every simple path of the graph leads everywhere)
    let mut clique: Vec<Value> = Vec::new();
    for i in 0..14 {
        let mut script: Vec<Value> = (0..14).filter(|j| *j != i).map(|j| json!({"op":"getp","ty":"N3","id":format!("k{j}")})).collect();
        script.push(json!({"op":"read","id":format!("k{i}"),"ext":"x"}));
        clique.push(json!({"ty":"N3","id":format!("k{i}"),"script":script}));
    }
    let mut all_scripts = clique.clone();
    all_scripts.extend(json!([
        {"ty":"N0","id":"d","script":[{"op":"load","ty":"L0","id":"a","req":true},{"op":"load","ty":"L0","id":"b","req":false}]},
        {"ty":"N1","id":"p","script":[{"op":"get","ty":"N2","id":"q"},{"op":"read","id":"p","ext":"x"}]},
        {"ty":"N2","id":"q","script":[{"op":"get","ty":"N1","id":"p"},{"op":"read","id":"q","ext":"x"}]},
        {"ty":"N3","id":"s","script":[{"op":"get","ty":"N3","id":"s"},{"op":"read","id":"s","ext":"x"}]},
        {"ty":"N1","id":"pack","script":[{"op":"loadn","id":"n","ext":"x","prefix":"m"}]},
    ]).as_array().unwrap().iter().cloned());
    set_scripts(&Value::Array(all_scripts));
    let src = MemSource::new(true);
    src.st.lock().unwrap().trace_reads = false;
    for id in ["a", "b", "c", "p", "q", "s"] {
        src.put(id, "x", b"v1");
    }
    trace::enable();
    trace::take();
    let cache = Arc::new(AssetCache::with_source(src.clone()));
    if mode == "cycle" {
        for round in 0..2 {
            for i in 0..14 {
                if round == 0 {
                    src.put(&format!("k{i}"), "x", b"v1");
                }
                let _ = cache.load::<Node<3>>(&format!("k{i}"));
            }
            // the second round of loads finds everything cached; reloading one member re-learns its look-ups
        }
        let _ = cache.load::<Node<1>>("p");
        let _ = cache.load::<Node<2>>("q");
        let _ = cache.load::<Node<3>>("s");
        let _ = cache.load::<Node<1>>("p");
    }
    let _ = cache.load::<Node<0>>("d");
    if mode == "burst" {
        // a manifest that names 2 assets, then 3000: the reloader thread first-loads them all in one pass
        src.put("n", "x", b"v2");
        for i in 0..3000 {
            src.put(&format!("m{i}"), "x", b"v1");
        }
        let _ = cache.load::<Node<1>>("pack");
        src.put("n", "x", b"v3000");
        src.send(&[OwnedDirEntry::File("n".into(), "x".into())]);
        std::thread::sleep(std::time::Duration::from_millis(50));
    }
    let progress = Arc::new(AtomicU64::new(0));
    let stop = Arc::new(AtomicBool::new(false));
    let done = Arc::new(AtomicBool::new(false));
    let caller_tids: Arc<std::sync::Mutex<Vec<u64>>> = Arc::new(std::sync::Mutex::new(Vec::new()));

    // watchdog: blocked = no call completed for 4 s while the CALLER threads burn no CPU
    // (loader and event threads keep running and do not count)
    {
        let progress = progress.clone();
        let done = done.clone();
        let out = out.clone();
        let caller_tids = caller_tids.clone();
        let cpu_ticks = move || thread_ticks(&caller_tids.lock().unwrap());
        std::thread::spawn(move || {
            let mut last = progress.load(Ordering::SeqCst);
            let mut last_cpu = cpu_ticks();
            let mut since = std::time::Instant::now();
            loop {
                std::thread::sleep(std::time::Duration::from_millis(250));
                if done.load(Ordering::SeqCst) {
                    return;
                }
                let p = progress.load(Ordering::SeqCst);
                let c = cpu_ticks();
                if p != last || c > last_cpu + 2 {
                    last = p;
                    last_cpu = c;
                    since = std::time::Instant::now();
                } else if since.elapsed() > std::time::Duration::from_secs(4) {
                    let lines = trace::take();
                    let tail: Vec<Value> = lines.iter().rev().take(30).rev().cloned().collect();
                    let _ = trace::write_ndjson(&out, &project(lines));
                    println!("REPORT {}", json!({"blocked":true,"progress":p,"tail":tail}));
                    std::process::exit(3);
                }
            }
        });
    }

    let mut handles = Vec::new();
    for i in 0..callers {
        let cache = cache.clone();
        let progress = progress.clone();
        let caller_tids = caller_tids.clone();
        handles.push(std::thread::spawn(move || {
            trace::set_thread(&format!("t{}", i + 1));
            caller_tids.lock().unwrap().push(unsafe { libc::syscall(libc::SYS_gettid) } as u64);
            for k in 0..calls {
                cache.hot_reload();
                trace::emit(json!({"ev":"End","op":"hot_reload"}));
                progress.fetch_add(1, Ordering::SeqCst);
                // leave the reloader time to take events between calls (it takes one batch per wake-up), so that
                // passes really reload things; every 16th call follows the previous one at once
                if k % 16 != 15 {
                    std::thread::sleep(std::time::Duration::from_micros(150 + 97 * ((k + i) % 5) as u64));
                }
            }
        }));
    }
    // loader threads
    let mut side = Vec::new();
    for i in 0..2 {
        let cache = cache.clone();
        let stop = stop.clone();
        side.push(std::thread::spawn(move || {
            trace::set_thread(&format!("u{}", i + 1));
            let mut rng = StdRng::seed_from_u64(seed + 100 + i as u64);
            while !stop.load(Ordering::SeqCst) {
                match rng.gen_range(0..4) {
                    0 => {
                        let _ = cache.load::<Leaf<0>>(["a", "b", "c"][rng.gen_range(0..3)]);
                    }
                    1 => {
                        let _ = cache.load::<Node<0>>("d").map(|h| h.read().data());
                    }
                    2 => {
                        let id = format!("g{}", rng.gen_range(0..50));
                        let _ = cache.get_or_insert::<crate::nodes::Stor>(&id, crate::nodes::Stor::from_data(json!({"t":"stor","c":1})).unwrap());
                    }
                    _ => {
                        let _ = cache.get_cached::<Leaf<0>>("a").map(|h| h.read().data());
                    }
                }
                std::thread::yield_now();
            }
        }));
    }
    // event bursts
    {
        let src = src.clone();
        let stop = stop.clone();
        let mode = mode.clone();
        side.push(std::thread::spawn(move || {
            trace::set_thread("e");
            let mut rng = StdRng::seed_from_u64(seed + 7);
            let mut n = 0u64;
            while !stop.load(Ordering::SeqCst) {
                n += 1;
                let ids: &[&str] = if mode == "cycle" { &["p", "q", "s", "a", "k0", "k7"] } else { &["a", "b", "c"] };
                let id = ids[rng.gen_range(0..ids.len())];
                src.put(id, "x", format!("v{}", n % 1000).as_bytes());
                let mut batch = vec![OwnedDirEntry::File(id.into(), "x".into())];
                if rng.gen_bool(0.3) {
                    batch.push(OwnedDirEntry::File("nobody".into(), "x".into()));
                    batch.push(OwnedDirEntry::File(id.into(), "x".into()));
                }
                if mode == "panic" && rng.gen_bool(0.2) {
                    arm_loader(Some(LoaderFault { at: 0, panic: true, thread: Some("R".into()) }));
                }
                if mode == "dropsender" && n == 20 {
                    src.drop_sender();
                }
                if src.sender().is_some() {
                    src.send(&batch);
                }
                if n % 8 == 0 {
                    std::thread::sleep(std::time::Duration::from_micros(200));
                }
            }
        }));
    }
    for h in handles {
        h.join().unwrap();
    }
    stop.store(true, Ordering::SeqCst);
    for h in side {
        let _ = h.join();
    }
    done.store(true, Ordering::SeqCst);
    let lines = trace::take();
    let total = lines.len();
    if mode != "burst" {
        // the reloader thread's own view of the same run, for Trace_Thread.tla
        let mut th = Vec::new();
        for l in lines.iter() {
            crate::replay::thread_event(l, &mut th);
        }
        trace::write_ndjson(&format!("{out}.thread"), &th).unwrap();
    }
    let proj = project(lines);
    trace::write_ndjson(&out, &proj).unwrap();
    println!("REPORT {}", json!({"blocked":false,"progress":progress.load(Ordering::SeqCst),"events":total,"projected":proj.len()}));
}

// ---------------------------------------------------------------------------
// C15: lifecycle of the hot-reloading thread, observed from /proc
// ---------------------------------------------------------------------------
/// (tid, cpu ticks, state) of every thread of this process named like the reloader
fn reloader_threads() -> Vec<(u64, u64, char)> {
    let mut v = Vec::new();
    if let Ok(rd) = std::fs::read_dir("/proc/self/task") {
        for e in rd.flatten() {
            let tid: u64 = e.file_name().to_string_lossy().parse().unwrap_or(0);
            let comm = std::fs::read_to_string(e.path().join("comm")).unwrap_or_default();
            if comm.trim().starts_with("assets_hot_relo") {
                let s = std::fs::read_to_string(e.path().join("stat")).unwrap_or_default();
                let rest = s.rsplit(')').next().unwrap_or("").to_string();
                let f: Vec<&str> = rest.split_whitespace().collect();
                let st = f.first().and_then(|x| x.chars().next()).unwrap_or('?');
                let u: u64 = f.get(11).and_then(|x| x.parse().ok()).unwrap_or(0);
                let k: u64 = f.get(12).and_then(|x| x.parse().ok()).unwrap_or(0);
                v.push((tid, u + k, st));
            }
        }
    }
    v
}

fn total_ticks(v: &[(u64, u64, char)]) -> u64 {
    v.iter().map(|x| x.1).sum()
}

fn life_lines(lines: Vec<Value>) -> Vec<Value> {
    let keep = ["SendAdd", "SendClear", "SendStatic", "Request", "Send", "DropCache", "DropSender", "Select", "MsgAddAsset",
                "MsgClear", "MsgStatic", "MsgPtr", "Events", "Exit", "Reset"];
    lines
        .into_iter()
        .filter(|l| keep.contains(&l["ev"].as_str().unwrap_or("")))
        .map(|l| {
            let mut o = json!({"ev": l["ev"]});
            if l["ev"] == "Select" {
                o["ready"] = l["ready"].clone();
            }
            o
        })
        .collect()
}

/// `amv c15-life <out.ndjson> <seed> <kind: mem|fs> <rounds>`
pub fn c15(args: &[String]) {
    let out = args[0].clone();
    let seed: u64 = args[1].parse().unwrap();
    let kind = args[2].clone();
    let rounds: usize = args[3].parse().unwrap();
    let mut rng = StdRng::seed_from_u64(seed);
    trace::enable();
    trace::take();
    let mut all = Vec::new();
    let mut results = Vec::new();
    let dir = format!("{}/fs-{}", std::env::var("AMV_WORK").unwrap_or_else(|_| ".".into()), std::process::id());
    if kind == "fs" {
        std::fs::create_dir_all(format!("{dir}/d")).unwrap();
        std::fs::write(format!("{dir}/a.x"), b"v1").unwrap();
        std::fs::write(format!("{dir}/d/b.x"), b"v1").unwrap();
    }
    for round in 0..rounds {
        let shape = ["idle", "after_hot_reload", "events_queued", "loads_finished", "sender_dropped"][round % 5];
        trace::emit(json!({"ev":"Reset","th":"main"}));
        let src = MemSource::new(true);
        src.st.lock().unwrap().trace_reads = false;
        src.put("a", "x", b"v1");
        let before = reloader_threads().len();
        let mut alive_seen = 0usize;
        let mut sender_dropped_ticks: Option<u64> = None;
        macro_rules! scenario {
            ($cache:expr, $send:expr) => {{
                let cache = $cache;
                let _ = cache.load::<Leaf<0>>("a");
                if shape == "after_hot_reload" || rng.gen_bool(0.3) {
                    cache.hot_reload();
                }
                // quiet when idle: CPU of the reloader over an idle window
                alive_seen = alive_seen.max(reloader_threads().len());
                let idle_ticks = if round == 0 {
                    std::thread::sleep(std::time::Duration::from_millis(200));
                    alive_seen = alive_seen.max(reloader_threads().len());
                    let t0 = total_ticks(&reloader_threads());
                    std::thread::sleep(std::time::Duration::from_millis(1000));
                    Some(total_ticks(&reloader_threads()) - t0)
                } else {
                    None
                };
                if shape == "sender_dropped" && kind == "mem" {
                    trace::emit(json!({"ev":"DropSender","th":"main"}));
                    src.drop_sender();
                    std::thread::sleep(std::time::Duration::from_millis(100));
                    let t0 = total_ticks(&reloader_threads());
                    std::thread::sleep(std::time::Duration::from_millis(600));
                    sender_dropped_ticks = Some(total_ticks(&reloader_threads()) - t0);
                    cache.hot_reload();
                }
                if shape == "events_queued" {
                    for _ in 0..3 {
                        $send;
                    }
                }
                if shape == "loads_finished" {
                    let _ = cache.load::<Leaf<0>>("a");
                    let _ = cache.load::<Leaf<1>>("a");
                }
                trace::emit(json!({"ev":"DropCache","th":"main"}));
                drop(cache);
                idle_ticks
            }};
        }
        let idle_ticks = if kind == "fs" {
            let c = AssetCache::new(&dir).expect("fs cache");
            scenario!(c, {
                let _ = std::fs::write(format!("{dir}/a.x"), format!("v{}", rng.gen_range(2..99)));
            })
        } else {
            let c = AssetCache::with_source(src.clone());
            scenario!(c, {
                src.send(&[OwnedDirEntry::File("a".into(), "x".into())]);
            })
        };
        // goes away with its cache
        std::thread::sleep(std::time::Duration::from_millis(300));
        let t300 = reloader_threads();
        let extra300: Vec<_> = t300.iter().cloned().collect();
        let c0 = total_ticks(&t300);
        std::thread::sleep(std::time::Duration::from_millis(700));
        let t1000 = reloader_threads();
        let burn = total_ticks(&t1000).saturating_sub(c0);
        results.push(json!({"round":round,"shape":shape,"threads_before":before,"threads_300ms":extra300.len(),
            "threads_1s":t1000.len(),"states_1s": t1000.iter().map(|x| x.2.to_string()).collect::<Vec<_>>(),
            "cpu_ticks_after_drop":burn,"idle_ticks":idle_ticks,"threads_while_alive":alive_seen,
            "ticks_after_sender_dropped":sender_dropped_ticks,"hook_events":trace::len()}));
        if kind == "mem" {
            let mut ll = life_lines(trace::take());
            // a spinning loop floods the trace: keep its head, the measurements above tell the rest
            ll.truncate(4000);
            all.extend(ll);
        } else {
            trace::take();
        }
        drop(src);
    }
    let mut watcher_threads_left = 0usize;
    let mut watcher_threads_dotted = 0usize;
    if kind == "fs" {
        let count_watchers = || -> usize {
            let mut n = 0;
            if let Ok(rd) = std::fs::read_dir("/proc/self/task") {
                for e in rd.flatten() {
                    let comm = std::fs::read_to_string(e.path().join("comm")).unwrap_or_default();
                    if comm.trim().starts_with("notify-rs") {
                        n += 1;
                    }
                }
            }
            n
        };
        // the watchers of the dropped caches: an event that names no asset (a dotted file) must end them too
        for i in 0..5 {
            let _ = std::fs::write(format!("{dir}/notes.v2.txt"), format!("x{i}"));
            std::thread::sleep(std::time::Duration::from_millis(40));
        }
        std::thread::sleep(std::time::Duration::from_millis(300));
        watcher_threads_left = count_watchers();
        // the same on a fresh root where, after the drops, ONLY modifications of an existing entry
        // without an id happen (no creation: that would name the root directory as well)
        let dir2 = format!("{dir}-dotted");
        let _ = std::fs::remove_dir_all(&dir2);
        std::fs::create_dir_all(format!("{dir2}/v1.2")).unwrap();
        std::fs::write(format!("{dir2}/a.x"), "v1").unwrap();
        std::fs::write(format!("{dir2}/notes.v2.txt"), "n0").unwrap();
        std::fs::write(format!("{dir2}/v1.2/b.x"), "n0").unwrap();
        std::thread::sleep(std::time::Duration::from_millis(100));
        let base = count_watchers();
        for _ in 0..3 {
            let c = AssetCache::new(&dir2).expect("fs cache");
            let _ = c.load::<Leaf<0>>("a");
            drop(c);
        }
        std::thread::sleep(std::time::Duration::from_millis(300));
        for i in 0..6 {
            use std::io::Write;
            for f in ["notes.v2.txt", "v1.2/b.x"] {
                if let Ok(mut fh) = std::fs::OpenOptions::new().write(true).open(format!("{dir2}/{f}")) {
                    let _ = fh.write_all(format!("m{i}").as_bytes());
                }
            }
            std::thread::sleep(std::time::Duration::from_millis(40));
        }
        std::thread::sleep(std::time::Duration::from_millis(400));
        watcher_threads_dotted = count_watchers().saturating_sub(base);
        let _ = std::fs::remove_dir_all(&dir2);
        let _ = std::fs::remove_dir_all(&dir);
    }
    // a steady stream of notifications about a loaded, not yet reloaded asset while the cache is dropped: the
    // reloader must still notice that its cache is gone (and the stream ends because its sends start failing)
    let mut stream_left = 0usize;
    if kind == "mem" {
        trace::disable();
        let before = reloader_threads().len();
        for _ in 0..3 {
            let s2 = MemSource::new(true);
            s2.st.lock().unwrap().trace_reads = false;
            s2.put("a", "x", b"v1");
            let cache = AssetCache::with_source(s2.clone());
            let _ = cache.load::<Leaf<0>>("a");
            let stop = Arc::new(AtomicBool::new(false));
            let (s3, stop2) = (s2.clone(), stop.clone());
            let streamer = std::thread::spawn(move || {
                let mut n = 0u64;
                while !stop2.load(Ordering::SeqCst) {
                    n += 1;
                    s3.put("a", "x", format!("v{}", n % 100).as_bytes());
                    match s3.sender() {
                        Some(tx) => {
                            if tx.send(OwnedDirEntry::File("a".into(), "x".into())).is_err() {
                                break;
                            }
                        }
                        None => break,
                    }
                    std::thread::sleep(std::time::Duration::from_millis(2));
                }
            });
            std::thread::sleep(std::time::Duration::from_millis(120));
            drop(cache);
            // measured WHILE the stream goes on (its sends fail once the reloader is gone, which ends it)
            std::thread::sleep(std::time::Duration::from_millis(700));
            stream_left += reloader_threads().len().saturating_sub(before);
            stop.store(true, Ordering::SeqCst);
            let _ = streamer.join();
            std::thread::sleep(std::time::Duration::from_millis(100));
        }
        trace::enable();
    }
    let mut join_blocked = 0usize;
    let mut join_waits: Vec<u64> = Vec::new();
    if kind == "mem" {
        trace::disable();
        for _ in 0..3 {
            let inner = MemSource::new(true);
            inner.st.lock().unwrap().trace_reads = false;
            inner.put("a", "x", b"v1");
            let waited = Arc::new(AtomicU64::new(0));
            let gave_up = Arc::new(AtomicBool::new(false));
            let cache = AssetCache::with_source(JoinSource { inner, waited_ms: waited.clone(), gave_up: gave_up.clone() });
            let _ = cache.load::<Leaf<0>>("a");
            cache.hot_reload();
            drop(cache);
            join_waits.push(waited.load(Ordering::SeqCst));
            if gave_up.load(Ordering::SeqCst) {
                join_blocked += 1;
            }
        }
        trace::enable();
    }
    trace::write_ndjson(&out, &all).unwrap();
    println!("REPORT {}", json!({"kind":kind,"join_source_blocked":join_blocked,"threads_left_after_streams":stream_left,"join_source_waits_ms":join_waits,"rounds":results,"events":all.len(),"watcher_threads_left":watcher_threads_left,"watcher_threads_dotted":watcher_threads_dotted}));
}

// ---------------------------------------------------------------------------
// C07: readers with guards against a stream of reloads of a large value
// ---------------------------------------------------------------------------
pub struct Big {
    pub words: Vec<u64>,
}
pub struct BigLoader;
impl assets_manager::loader::Loader<Big> for BigLoader {
    fn load(content: std::borrow::Cow<[u8]>, _ext: &str) -> Result<Big, assets_manager::BoxedError> {
        let n = crate::assets::parse_leaf(&content).ok_or("bad")? as u64;
        Ok(Big { words: vec![n; 512] })
    }
}
impl assets_manager::Asset for Big {
    const EXTENSION: &'static str = "x";
    type Loader = BigLoader;
}

/// a big value stored inline (no indirection): the swap moves 4 KiB
#[derive(Clone, Copy)]
pub struct Inline {
    pub words: [u64; 512],
}
impl assets_manager::loader::Loader<Inline> for BigLoader {
    fn load(content: std::borrow::Cow<[u8]>, _ext: &str) -> Result<Inline, assets_manager::BoxedError> {
        let n = crate::assets::parse_leaf(&content).ok_or("bad")? as u64;
        Ok(Inline { words: [n; 512] })
    }
}
impl assets_manager::Asset for Inline {
    const EXTENSION: &'static str = "x";
    type Loader = BigLoader;
}

/// small plain values (one cache line, and two words): what an "it fits in a register / cache line" shortcut would aim at
#[derive(Clone, Copy)]
pub struct SmallPod<const N: usize> {
    pub words: [u64; N],
}
impl<const N: usize> assets_manager::loader::Loader<SmallPod<N>> for BigLoader {
    fn load(content: std::borrow::Cow<[u8]>, _ext: &str) -> Result<SmallPod<N>, assets_manager::BoxedError> {
        let n = crate::assets::parse_leaf(&content).ok_or("bad")? as u64;
        Ok(SmallPod { words: [n; N] })
    }
}
impl<const N: usize> assets_manager::Asset for SmallPod<N> {
    const EXTENSION: &'static str = "x";
    type Loader = BigLoader;
}

fn uniform(w: &[u64]) -> (u64, bool) {
    let first = unsafe { std::ptr::read_volatile(&w[0]) };
    let mut ok = true;
    for x in w.iter() {
        if unsafe { std::ptr::read_volatile(x) } != first {
            ok = false;
        }
    }
    (first, ok)
}

/// A compound whose `load` keeps a read guard on the big value for a while: the guard is taken while the
/// calling thread records dependencies (inside `Compound::load` on a user thread) and must pin like any other.
pub struct HoldGuard;
impl assets_manager::Compound for HoldGuard {
    fn load(cache: assets_manager::AnyCache, _id: &assets_manager::SharedString) -> Result<Self, assets_manager::BoxedError> {
        let h = cache.load::<Inline>("a")?;
        let g = h.read();
        let rid = crate::front::rid_of(h.last_reload_id());
        let (v, _) = uniform(&g.words);
        trace::emit(json!({"ev":"GuardAcq","rid":rid,"val":v}));
        std::thread::sleep(std::time::Duration::from_micros(900));
        let (v2, ok) = uniform(&g.words);
        let rid2 = crate::front::rid_of(h.last_reload_id());
        trace::emit(json!({"ev":"GuardRel","rid":rid2,"val":v2,"uniform":ok}));
        drop(g);
        Ok(HoldGuard)
    }
    // reloadable (the default): its load runs with the thread's dependency recorder switched on
}

/// `amv c07-stress <out.ndjson> <seed> <writes> <mode: local|static>`
pub fn c07(args: &[String]) {
    let out = args[0].clone();
    let seed: u64 = args[1].parse().unwrap();
    let writes: u64 = args[2].parse().unwrap();
    let is_static = args[3] == "static";
    let src = MemSource::new(true);
    src.st.lock().unwrap().trace_reads = false;
    src.put("a", "x", b"v0");
    trace::enable();
    trace::take();
    let cache: &'static AssetCache<MemSource> = Box::leak(Box::new(AssetCache::with_source(src.clone())));
    let h = cache.load::<Inline>("a").unwrap();
    if is_static {
        cache.enhance_hot_reloading();
    }
    let stop = Arc::new(AtomicBool::new(false));
    let mut readers = Vec::new();
    for i in 0..4 {
        let stop = stop.clone();
        readers.push(std::thread::spawn(move || {
            trace::set_thread(&format!("r{}", i + 1));
            let mut rng = StdRng::seed_from_u64(seed + 31 * i as u64);
            let mut n = 0u64;
            while !stop.load(Ordering::SeqCst) {
                n += 1;
                let kind = rng.gen_range(0..4);
                if kind == 3 {
                    // the lock-free looking accessors must give whole values too
                    let c = if n % 2 == 0 { h.copied() } else { h.cloned() };
                    let (v, ok) = uniform(&c.words);
                    if !ok {
                        trace::emit(json!({"ev":"TornCopy","val":v}));
                    }
                    continue;
                }
                let g = h.read();
                let rid = crate::front::rid_of(h.last_reload_id());
                let (v, _) = uniform(&g.words);
                trace::emit(json!({"ev":"GuardAcq","rid":rid,"val":v}));
                let (v2, ok) = match kind {
                    0 => uniform(&g.words),
                    1 => {
                        // a long-held guard
                        std::thread::sleep(std::time::Duration::from_micros(rng.gen_range(100..1500)));
                        uniform(&g.words)
                    }
                    _ => {
                        // a mapped guard keeps the lock
                        // map, or try_map through its Err path (which hands the guard back) and then its Ok path
                        let m = if n % 2 == 0 {
                            assets_manager::AssetReadGuard::map(g, |b| &b.words[100..400])
                        } else {
                            let back = match assets_manager::AssetReadGuard::try_map(g, |_b| None::<&[u64]>) {
                                Ok(_) => unreachable!(),
                                Err(g) => g,
                            };
                            match assets_manager::AssetReadGuard::try_map(back, |b| Some(&b.words[100..400])) {
                                Ok(m) => m,
                                Err(_) => unreachable!(),
                            }
                        };
                        std::thread::sleep(std::time::Duration::from_micros(rng.gen_range(50..600)));
                        let r = uniform(&m);
                        let rid2 = crate::front::rid_of(h.last_reload_id());
                        trace::emit(json!({"ev":"GuardRel","rid":rid2,"val":r.0,"uniform":r.1}));
                        drop(m);
                        continue;
                    }
                };
                let rid2 = crate::front::rid_of(h.last_reload_id());
                trace::emit(json!({"ev":"GuardRel","rid":rid2,"val":v2,"uniform":ok}));
                drop(g);
                if n % 4 == 0 {
                    std::thread::yield_now();
                }
            }
        }));
    }
    // tight loops on the accessors that look lock-free: whole values only
    let torn_copies = Arc::new(AtomicU64::new(0));
    for i in 0..2 {
        let stop = stop.clone();
        let torn_copies = torn_copies.clone();
        readers.push(std::thread::spawn(move || {
            trace::set_thread(&format!("c{}", i + 1));
            while !stop.load(Ordering::Relaxed) {
                let c = if i == 0 { h.copied() } else { h.cloned() };
                if !uniform(&c.words).1 {
                    torn_copies.fetch_add(1, Ordering::Relaxed);
                }
            }
        }));
    }
    // the same on small plain values of the same file (8 words = one cache line, 2 words)
    let h8 = cache.load::<SmallPod<8>>("a").unwrap();
    let h2 = cache.load::<SmallPod<2>>("a").unwrap();
    for i in 0..2 {
        let stop = stop.clone();
        let torn_copies = torn_copies.clone();
        readers.push(std::thread::spawn(move || {
            trace::set_thread(&format!("s{}", i + 1));
            while !stop.load(Ordering::Relaxed) {
                let ok = if i == 0 { uniform(&h8.copied().words).1 && uniform(&h2.cloned().words).1 } else { uniform(&h8.cloned().words).1 && uniform(&h2.copied().words).1 };
                if !ok {
                    torn_copies.fetch_add(1, Ordering::Relaxed);
                }
            }
        }));
    }
    // a reader whose guard lives inside a Compound::load
    {
        let stop = stop.clone();
        readers.push(std::thread::spawn(move || {
            trace::set_thread("lg");
            while !stop.load(Ordering::SeqCst) {
                let _ = cache.load_owned::<HoldGuard>("hg");
                std::thread::sleep(std::time::Duration::from_micros(300));
            }
        }));
    }
    // ReloadWatchers polled in tight loops against the rewrites: a rewrite that happened since the last `true`
    // (the id read before the poll is newer than the id read right after that `true`) must be reported
    let missed_reports = Arc::new(AtomicU64::new(0));
    let polls = Arc::new(AtomicU64::new(0));
    for i in 0..6 {
        let stop = stop.clone();
        let missed_reports = missed_reports.clone();
        let polls = polls.clone();
        readers.push(std::thread::spawn(move || {
            trace::set_thread(&format!("w{}", i + 1));
            let mut w = h.reload_watcher();
            // ReloadId is ordered: no formatting in this loop, the polls must be as dense as possible
            let mut seen = h.last_reload_id();
            let mut n = 0u64;
            while !stop.load(Ordering::Relaxed) {
                for _ in 0..64 {
                    let pre = h.last_reload_id();
                    if w.reloaded() {
                        seen = h.last_reload_id();
                    } else if pre > seen {
                        missed_reports.fetch_add(1, Ordering::Relaxed);
                        seen = pre;
                    }
                }
                n += 64;
            }
            polls.fetch_add(n, Ordering::Relaxed);
        }));
    }
    let mut sent = 0usize;
    let mut stalled = false;
    for k in 1..=writes {
        src.put("a", "x", format!("v{k}").as_bytes());
        trace::emit(json!({"ev":"Notified","th":"main"}));
        src.send(&[OwnedDirEntry::File("a".into(), "x".into())]);
        sent += 1;
        if is_static {
            // once one rewrite did not come within 10 s the others are not waited for (the report says it all)
            let t0 = std::time::Instant::now();
            while !stalled && crate::front::rid_of(h.last_reload_id()) < k {
                if t0.elapsed() > std::time::Duration::from_secs(10) {
                    stalled = true;
                }
                std::thread::sleep(std::time::Duration::from_micros(200));
            }
        } else {
            if !stalled && !trace::wait_until(std::time::Duration::from_secs(10), |l| l.iter().filter(|x| x["ev"] == "EventsEnd").count() >= sent) {
                stalled = true;
            }
            trace::emit(json!({"ev":"Begin","op":"hot_reload","th":"main"}));
            cache.hot_reload();
            trace::emit(json!({"ev":"End","op":"hot_reload","th":"main"}));
        }
        std::thread::sleep(std::time::Duration::from_micros(300));
    }
    stop.store(true, Ordering::SeqCst);
    for r in readers {
        r.join().unwrap();
    }
    let lines = trace::take();
    let mut proj = Vec::new();
    let mut torn = torn_copies.load(Ordering::SeqCst);
    // the trace specification follows the big value only (the small ones share its id and file, not its entry)
    let inline_ty = format!("{:?}", std::any::TypeId::of::<Inline>());
    for l in lines {
        match l["ev"].as_str() {
            Some("Notified") => proj.push(json!({"ev":"Notified"})),
            Some("Begin") | Some("End") if l["op"] == "hot_reload" => proj.push(json!({"ev":l["ev"]})),
            Some("Write") if l["id"] == "a" && l["ty"] == inline_ty.as_str() => proj.push(json!({"ev":"Write","rid":l["rid"]})),
            Some("GuardAcq") => proj.push(json!({"ev":"GuardAcq","th":l["th"],"rid":l["rid"],"val":l["val"]})),
            Some("TornCopy") => torn += 1,
            Some("GuardRel") => {
                if l["uniform"] == false {
                    torn += 1;
                }
                proj.push(json!({"ev":"GuardRel","th":l["th"],"rid":l["rid"],"val":l["val"],"uniform":l["uniform"]}))
            }
            _ => {}
        }
    }
    trace::write_ndjson(&out, &proj).unwrap();
    // a reload that takes longer than any plausible patience: hot_reload returns only after it
    let mut early_return = false;
    let mut slow_ok = true;
    if !is_static {
        let gate = crate::mem::Gate::new();
        src.put("a", "x", format!("v{}", writes + 1).as_bytes());
        src.set_gate("a", "x", gate.clone());
        let n0 = trace::len();
        src.send(&[OwnedDirEntry::File("a".into(), "x".into())]);
        let _ = trace::wait_until(std::time::Duration::from_secs(10), |l| l.iter().skip(n0).any(|x| x["ev"] == "EventsEnd"));
        let returned = Arc::new(AtomicBool::new(false));
        let r2 = returned.clone();
        let t = std::thread::spawn(move || {
            cache.hot_reload();
            r2.store(true, Ordering::SeqCst);
        });
        let arrived = gate.wait_arrived(1, std::time::Duration::from_secs(10));
        std::thread::sleep(std::time::Duration::from_millis(2600));
        early_return = arrived && returned.load(Ordering::SeqCst);
        gate.open();
        src.clear_gates();
        let _ = t.join();
        slow_ok = arrived && uniform(&h.read().words).0 == writes + 1;
    }
    println!("REPORT {}", json!({"events":proj.len(),"torn":torn,"final_rid":crate::front::rid_of(h.last_reload_id()) - if is_static { 0 } else { 1 },"writes":writes,
        "hot_reload_returned_before_slow_reload":early_return,"slow_reload_applied":slow_ok,
        "watcher_polls":polls.load(Ordering::SeqCst),"missed_reports":missed_reports.load(Ordering::SeqCst)}));
}


// ---------------------------------------------------------------------------
// C15: a source that, like a source owning a polling watcher, waits in its destructor until the
// reloader let go of its event channel. Dropping the cache must stop the reloader BEFORE the
// source is dropped, or drop(cache) never returns.
// ---------------------------------------------------------------------------
pub struct JoinSource {
    pub inner: MemSource,
    pub waited_ms: Arc<AtomicU64>,
    pub gave_up: Arc<AtomicBool>,
}
impl assets_manager::source::Source for JoinSource {
    fn read(&self, id: &str, ext: &str) -> std::io::Result<assets_manager::source::FileContent<'_>> {
        self.inner.read(id, ext)
    }
    fn read_dir(&self, id: &str, f: &mut dyn FnMut(assets_manager::source::DirEntry)) -> std::io::Result<()> {
        self.inner.read_dir(id, f)
    }
    fn exists(&self, entry: assets_manager::source::DirEntry) -> bool {
        self.inner.exists(entry)
    }
    fn make_source(&self) -> Option<Box<dyn assets_manager::source::Source + Send>> {
        self.inner.make_source()
    }
    fn configure_hot_reloading(&self, events: assets_manager::hot_reloading::EventSender) -> Result<(), assets_manager::BoxedError> {
        self.inner.configure_hot_reloading(events)
    }
}
impl Drop for JoinSource {
    fn drop(&mut self) {
        // the only shutdown signal a source gets: its sender reports that nobody listens any more
        let t0 = std::time::Instant::now();
        if let Some(tx) = self.inner.sender() {
            while tx.send_multiple(std::iter::empty::<OwnedDirEntry>().chain(std::iter::once(OwnedDirEntry::File("nobody".into(), "x".into())))).is_ok() {
                if t0.elapsed() > std::time::Duration::from_secs(3) {
                    self.gave_up.store(true, Ordering::SeqCst);
                    break;
                }
                std::thread::sleep(std::time::Duration::from_millis(2));
            }
        }
        self.waited_ms.store(t0.elapsed().as_millis() as u64, Ordering::SeqCst);
    }
}
