//! Script-interpreting compound types `Node<I>`, the `HasData` view of every value
//! type, error classification, and type dispatch by the names of spec/AMTypes.tla.
use crate::assets::{Leaf, Val};
use assets_manager::source::{DirEntry, Source};
use assets_manager::{AnyCache, BoxedError, Compound, Directory, RecursiveDirectory, SharedString, Storable};
use serde_json::{json, Value};
use std::collections::HashMap;
use std::sync::RwLock;

/// Node types: N0..N3 hot, N4..N5 not hot (same table as AMTypes!TypeInfo).
pub const NODE_HOT: [bool; 6] = [true, true, true, true, false, false];

#[derive(Debug)]
pub struct Node<const I: usize>(pub Val);

/// A plain storable (never loadable).
#[derive(Debug)]
pub struct Stor(pub Val);
impl Storable for Stor {}
impl assets_manager::asset::NotHotReloaded for Stor {}

/// scripts of the current world: (type name, id) -> instructions
pub static SCRIPTS: RwLock<Option<HashMap<(String, String), Value>>> = RwLock::new(None);

pub fn set_scripts(list: &Value) {
    let mut m = HashMap::new();
    if let Some(a) = list.as_array() {
        for s in a {
            m.insert(
                (s["ty"].as_str().unwrap().to_string(), s["id"].as_str().unwrap().to_string()),
                s["script"].clone(),
            );
        }
    }
    *SCRIPTS.write().unwrap_or_else(|e| e.into_inner()) = Some(m);
}

#[derive(Debug)]
pub struct ScriptError;
impl std::fmt::Display for ScriptError {
    fn fmt(&self, f: &mut std::fmt::Formatter<'_>) -> std::fmt::Result {
        f.write_str("script failure")
    }
}
impl std::error::Error for ScriptError {}

/// The JSON view of a value, as the specification writes values.
pub trait HasData: Sized {
    fn data(&self) -> Value;
    fn from_data(_v: Value) -> Option<Self> {
        None
    }
}
impl<const I: usize> HasData for Leaf<I> {
    fn data(&self) -> Value {
        strip_ext_if_default(&self.0.data)
    }
    fn from_data(v: Value) -> Option<Self> {
        Some(Leaf(Val::new(v)))
    }
}
impl<const I: usize> HasData for Node<I> {
    fn data(&self) -> Value {
        self.0.data.clone()
    }
    fn from_data(v: Value) -> Option<Self> {
        Some(Node(Val::new(v)))
    }
}
impl HasData for Stor {
    fn data(&self) -> Value {
        self.0.data.clone()
    }
    fn from_data(v: Value) -> Option<Self> {
        Some(Stor(Val::new(v)))
    }
}
impl<T: HasData> HasData for std::sync::Arc<T> {
    fn data(&self) -> Value {
        (**self).data()
    }
}
impl<T: HasData + Send + Sync + 'static> HasData for assets_manager::OnceInitCell<Option<T>, Value> {
    fn data(&self) -> Value {
        // the value of the cell is computed once from its seed (the loaded asset)
        self.get_or_init(|seed| seed.as_ref().map(|t| t.data()).unwrap_or(Value::Null)).clone()
    }
}
impl<T> HasData for Directory<T> {
    fn data(&self) -> Value {
        // Directory ids are specified sorted and duplicate-free: report them as stored
        json!({"t":"dir","ids": self.ids().map(|s| s.as_str().to_string()).collect::<Vec<_>>()})
    }
}
impl<T> HasData for RecursiveDirectory<T> {
    fn data(&self) -> Value {
        // the order of a recursive listing is the source's: compare as a sorted list
        let mut ids: Vec<String> = self.ids().map(|s| s.as_str().to_string()).collect();
        ids.sort();
        json!({"t":"dir","ids": ids})
    }
}

fn strip_ext_if_default(v: &Value) -> Value {
    v.clone()
}

pub fn content_json(bytes: &[u8]) -> Value {
    if let Some(n) = crate::assets::parse_leaf(bytes) {
        return json!({"c":"v","n":n});
    }
    if let Ok(s) = std::str::from_utf8(bytes) {
        if let Some(to) = s.strip_prefix('@') {
            return json!({"c":"ref","to":to});
        }
    }
    json!({"c":"bad"})
}

pub fn content_bytes(c: &Value) -> Option<Vec<u8>> {
    match c["c"].as_str()? {
        "v" => Some(format!("v{}", c["n"].as_i64()?).into_bytes()),
        "bad" => Some(b"bad".to_vec()),
        "ref" => Some(format!("@{}", c["to"].as_str()?).into_bytes()),
        _ => None,
    }
}

/// assets_manager::Error (or any boxed error) as the specification's error record.
pub fn err_json(e: &(dyn std::error::Error + 'static)) -> Value {
    if let Some(ae) = e.downcast_ref::<assets_manager::Error>() {
        return json!({"e":"wrap","id":ae.id().as_str(),"inner":err_json(ae.reason())});
    }
    if let Some(io) = e.downcast_ref::<std::io::Error>() {
        let msg = io.to_string();
        if let Some(ext) = msg.strip_prefix("conv:") {
            // a decoding error that the loader reported as an io::Error
            return json!({"e":"conv","ext":ext});
        }
        let ext = msg.strip_prefix("mem:").and_then(|m| m.split(':').nth(1)).unwrap_or("?").to_string();
        return json!({"e":"io","kind":crate::mem::kind_name(io.kind()),"ext":ext});
    }
    if let Some(c) = e.downcast_ref::<crate::assets::ConvError>() {
        return json!({"e":"conv","ext":c.ext});
    }
    if e.downcast_ref::<ScriptError>().is_some() {
        return json!({"e":"script"});
    }
    if e.to_string().contains("neither extension nor default value") {
        return json!({"e":"nodefault"});
    }
    json!({"e":"unknown","msg":e.to_string()})
}

pub fn top_err_json(e: &assets_manager::Error) -> Value {
    json!({"e":"wrap","id":e.id().as_str(),"inner":err_json(e.reason())})
}

/// Run `$body` with `$T` bound to the loadable (Compound) type named `$ty`.
#[macro_export]
macro_rules! with_compound {
    ($ty:expr, $T:ident => $body:expr, $else:expr) => {{
        use $crate::assets::Leaf;
        use $crate::nodes::Node;
        use assets_manager::{Directory, RecursiveDirectory};
        match $ty {
            "L0" => { type $T = Leaf<0>; $body }
            "L1" => { type $T = Leaf<1>; $body }
            "L2" => { type $T = Leaf<2>; $body }
            "L3" => { type $T = Leaf<3>; $body }
            "L4" => { type $T = Leaf<4>; $body }
            "L5" => { type $T = Leaf<5>; $body }
            "L6" => { type $T = Leaf<6>; $body }
            "L7" => { type $T = Leaf<7>; $body }
            "N0" => { type $T = Node<0>; $body }
            "N1" => { type $T = Node<1>; $body }
            "N2" => { type $T = Node<2>; $body }
            "N3" => { type $T = Node<3>; $body }
            "N4" => { type $T = Node<4>; $body }
            "N5" => { type $T = Node<5>; $body }
            "DL0" => { type $T = Directory<Leaf<0>>; $body }
            "DL1" => { type $T = Directory<Leaf<1>>; $body }
            "DL2" => { type $T = Directory<Leaf<2>>; $body }
            "RL0" => { type $T = RecursiveDirectory<Leaf<0>>; $body }
            "RL1" => { type $T = RecursiveDirectory<Leaf<1>>; $body }
            "AL0" => { type $T = std::sync::Arc<Leaf<0>>; $body }
            "AL2" => { type $T = std::sync::Arc<Leaf<2>>; $body }
            "OL0" => { type $T = assets_manager::OnceInitCell<Option<Leaf<0>>, serde_json::Value>; $body }
            "OL2" => { type $T = assets_manager::OnceInitCell<Option<Leaf<2>>, serde_json::Value>; $body }
            _ => $else,
        }
    }};
}

/// Run `$body` with `$T` bound to a type that can be built from data (get_or_insert).
#[macro_export]
macro_rules! with_insertable {
    ($ty:expr, $T:ident => $body:expr, $else:expr) => {{
        use $crate::assets::Leaf;
        use $crate::nodes::{Node, Stor};
        match $ty {
            "L0" => { type $T = Leaf<0>; $body }
            "L1" => { type $T = Leaf<1>; $body }
            "L2" => { type $T = Leaf<2>; $body }
            "L3" => { type $T = Leaf<3>; $body }
            "L6" => { type $T = Leaf<6>; $body }
            "N0" => { type $T = Node<0>; $body }
            "N1" => { type $T = Node<1>; $body }
            "N4" => { type $T = Node<4>; $body }
            "S0" => { type $T = Stor; $body }
            _ => $else,
        }
    }};
}

/// Any storable type of the table (get_cached, contains, remove, take).
#[macro_export]
macro_rules! with_storable {
    ($ty:expr, $T:ident => $body:expr, $else:expr) => {{
        match $ty {
            "S0" => { type $T = $crate::nodes::Stor; $body }
            other => $crate::with_compound!(other, $T => $body, $else),
        }
    }};
}

pub fn type_name_of(ty: std::any::TypeId) -> Option<&'static str> {
    const NAMES: [&str; 24] = [
        "L0", "L1", "L2", "L3", "L4", "L5", "L6", "L7", "N0", "N1", "N2", "N3", "N4", "N5", "DL0", "DL1", "DL2",
        "RL0", "RL1", "S0", "AL0", "AL2", "OL0", "OL2",
    ];
    for n in NAMES {
        let id = with_storable!(n, T => std::any::TypeId::of::<T>(), continue);
        if id == ty {
            return Some(n);
        }
    }
    None
}

/// `"TypeId(0x..)"` (hook output) -> table name
pub fn type_name_of_debug(dbg: &str) -> Option<&'static str> {
    const NAMES: [&str; 24] = [
        "L0", "L1", "L2", "L3", "L4", "L5", "L6", "L7", "N0", "N1", "N2", "N3", "N4", "N5", "DL0", "DL1", "DL2",
        "RL0", "RL1", "S0", "AL0", "AL2", "OL0", "OL2",
    ];
    for n in NAMES {
        let id = with_storable!(n, T => std::any::TypeId::of::<T>(), continue);
        if format!("{:?}", id) == dbg {
            return Some(n);
        }
    }
    None
}

fn entries_json(cache: AnyCache, id: &str) -> Result<Value, std::io::Error> {
    let mut v = Vec::new();
    cache.raw_source().read_dir(id, &mut |e| {
        v.push(match e {
            DirEntry::File(id, ext) => json!({"k":"file","id":id,"ext":ext}),
            DirEntry::Directory(id) => json!({"k":"dir","id":id}),
        })
    })?;
    v.sort_by_key(|x| x.to_string());
    Ok(Value::Array(v))
}

/// Execute a script through the given cache; `Err` = the load function returns an error.
pub fn run_script(cache: AnyCache, script: &Value) -> Result<Value, BoxedError> {
    let mut obs: Vec<Value> = Vec::new();
    for ins in script.as_array().map(|a| a.as_slice()).unwrap_or(&[]) {
        let op = ins["op"].as_str().unwrap_or("");
        let ty = ins["ty"].as_str().unwrap_or("");
        let id = ins["id"].as_str().unwrap_or("");
        let req = ins["req"].as_bool().unwrap_or(false);
        match op {
            "read" => {
                let ext = ins["ext"].as_str().unwrap_or("");
                match cache.raw_source().read(id, ext) {
                    Ok(c) => obs.push(json!({"o":"bytes","c":content_json(c.as_ref())})),
                    Err(_) => obs.push(json!({"o":"err"})),
                }
            }
            "readreq" => {
                let ext = ins["ext"].as_str().unwrap_or("");
                match cache.raw_source().read(id, ext) {
                    Ok(c) => obs.push(json!({"o":"bytes","c":content_json(c.as_ref())})),
                    Err(_) => return Err(Box::new(ScriptError)),
                }
            }
            "try" => {
                // the load itself catches a panic of its body and goes on
                let r = std::panic::catch_unwind(std::panic::AssertUnwindSafe(|| run_script(cache, &ins["body"])));
                match r {
                    Ok(Ok(v)) => obs.push(json!({"o":"val","v":v})),
                    Ok(Err(e)) => return Err(e),
                    Err(_) => obs.push(json!({"o":"caught"})),
                }
            }
            "loadn" => {
                // read a count from a file and load that many leaves (a manifest that can grow)
                let ext = ins["ext"].as_str().unwrap_or("");
                let n = cache.raw_source().read(id, ext).ok().and_then(|c| crate::assets::parse_leaf(c.as_ref())).unwrap_or(0);
                let prefix = ins["prefix"].as_str().unwrap_or("m");
                let mut okc = 0;
                for i in 0..n {
                    if cache.load::<Leaf<0>>(&format!("{prefix}{i}")).is_ok() {
                        okc += 1;
                    }
                }
                obs.push(json!({"o":"count","n":okc}));
            }
            "readdir" => match entries_json(cache, id) {
                Ok(e) => obs.push(json!({"o":"ents","s":e})),
                Err(_) => obs.push(json!({"o":"err"})),
            },
            "load" => {
                let r = with_compound!(ty, T => cache.load::<T>(id).map(|h| h.read().data()), panic!("bad type {ty}"));
                match r {
                    Ok(v) => obs.push(json!({"o":"val","v":v})),
                    Err(e) => {
                        if req {
                            return Err(Box::new(e));
                        }
                        obs.push(json!({"o":"err"}))
                    }
                }
            }
            "owned" => {
                let r = with_compound!(ty, T => cache.load_owned::<T>(id).map(|h| h.data()), panic!("bad type {ty}"));
                match r {
                    Ok(v) => obs.push(json!({"o":"val","v":v})),
                    Err(e) => {
                        if req {
                            return Err(Box::new(e));
                        }
                        obs.push(json!({"o":"err"}))
                    }
                }
            }
            "get" => {
                let r = with_storable!(ty, T => cache.get_cached::<T>(id).map(|h| h.read().data()), panic!("bad type {ty}"));
                obs.push(match r {
                    Some(v) => json!({"o":"val","v":v}),
                    None => json!({"o":"none"}),
                });
            }
            "getp" => {
                // a recorded look-up that observes presence only (stress graphs: values do not nest)
                let r = with_storable!(ty, T => cache.get_cached::<T>(id).is_some(), panic!("bad type {ty}"));
                obs.push(json!({"o":"bool","b":r}));
            }
            "contains" => {
                let r = with_storable!(ty, T => cache.contains::<T>(id), panic!("bad type {ty}"));
                obs.push(json!({"o":"bool","b":r}));
            }
            "goi" => {
                let n = ins["n"].as_i64().unwrap_or(0);
                let v = with_insertable!(ty, T => {
                    let val = T::from_data(json!({"t":"stor","c":n})).unwrap();
                    cache.get_or_insert::<T>(id, val).read().data()
                }, panic!("bad type {ty}"));
                obs.push(json!({"o":"val","v":v}));
            }
            "indirect" | "indirectnr" => {
                let ext = ins["ext"].as_str().unwrap_or("");
                let select = || cache.raw_source().read(id, ext).ok().and_then(|c| {
                    let j = content_json(c.as_ref());
                    j["to"].as_str().map(|s| s.to_string())
                });
                // "indirectnr": the selector file is read inside no_record, what it selects is loaded normally
                let target = if op == "indirectnr" { cache.no_record(select) } else { select() };
                match target {
                    None => {
                        if req {
                            return Err(Box::new(ScriptError));
                        }
                        obs.push(json!({"o":"err"}))
                    }
                    Some(to) => {
                        let r = with_compound!(ty, T => cache.load::<T>(&to).map(|h| h.read().data()), panic!("bad type {ty}"));
                        match r {
                            Ok(v) => obs.push(json!({"o":"val","v":v})),
                            Err(e) => {
                                if req {
                                    return Err(Box::new(e));
                                }
                                obs.push(json!({"o":"err"}))
                            }
                        }
                    }
                }
            }
            "norec" => {
                let r = cache.no_record(|| run_script(cache, &ins["body"]));
                match r {
                    Ok(v) => obs.push(json!({"o":"blind","v":v})),
                    Err(e) => return Err(e),
                }
            }
            "fail" => return Err(Box::new(ScriptError)),
            "panic" => crate::assets::injected_panic("injected script panic"),
            other => panic!("unknown instruction {other}"),
        }
    }
    Ok(json!({"t":"node","obs":obs}))
}

impl<const I: usize> Compound for Node<I> {
    fn load(cache: AnyCache, id: &SharedString) -> Result<Self, BoxedError> {
        let ty = format!("N{I}");
        let script = {
            let g = SCRIPTS.read().unwrap_or_else(|e| e.into_inner());
            g.as_ref().and_then(|m| m.get(&(ty.clone(), id.as_str().to_string())).cloned())
        };
        let script = match script {
            Some(s) => s,
            None => return Err(Box::new(ScriptError)),
        };
        let v = run_script(cache, &script)?;
        Ok(Node(Val::new(v)))
    }
    const HOT_RELOADED: bool = NODE_HOT[I];
}

impl assets_manager::asset::NotHotReloaded for Node<4> {}
impl assets_manager::asset::NotHotReloaded for Node<5> {}
