//! In-memory `Source` owned by the harness: editable, hot-reloadable (keeps the
//! `EventSender`), with fault injection, gates and tracing of every read.
use assets_manager::hot_reloading::EventSender;
use assets_manager::source::{DirEntry, FileContent, OwnedDirEntry, Source};
use assets_manager::BoxedError;
use serde_json::json;
use std::collections::{BTreeMap, BTreeSet};
use std::io;
use std::sync::{Arc, Condvar, Mutex};

#[derive(Clone, Debug)]
pub enum Content {
    Bytes(Arc<[u8]>),
    /// reading this file fails with the given kind
    Unreadable(io::ErrorKind),
}

#[derive(Clone, Copy, Debug, PartialEq, Eq)]
pub enum Delivery {
    Slice,
    Buffer,
    Owned,
    /// rotate through the three variants
    Rotate,
}

#[derive(Clone, Debug)]
pub struct Fault {
    /// fail the k-th matching call (0-based), counted from arming
    pub at: usize,
    pub kind: io::ErrorKind,
    /// "read" or "readdir"
    pub what: &'static str,
    /// only count calls made by this trace thread (None: any)
    pub thread: Option<String>,
}

#[derive(Default)]
pub struct Gate {
    open: Mutex<bool>,
    arrived: Mutex<usize>,
    cv: Condvar,
}

impl Gate {
    pub fn new() -> Arc<Gate> {
        Arc::new(Gate::default())
    }
    pub fn pass(&self) {
        {
            let mut a = self.arrived.lock().unwrap();
            *a += 1;
            self.cv.notify_all();
        }
        let mut o = self.open.lock().unwrap();
        while !*o {
            o = self.cv.wait(o).unwrap();
        }
    }
    pub fn open(&self) {
        *self.open.lock().unwrap() = true;
        self.cv.notify_all();
    }
    pub fn wait_arrived(&self, n: usize, timeout: std::time::Duration) -> bool {
        let deadline = std::time::Instant::now() + timeout;
        let mut a = self.arrived.lock().unwrap();
        while *a < n {
            let now = std::time::Instant::now();
            if now >= deadline {
                return false;
            }
            a = self.cv.wait_timeout(a, deadline - now).unwrap().0;
        }
        true
    }
}

pub struct State {
    pub files: BTreeMap<(String, String), Content>,
    /// explicit directories (ancestors of files are implied)
    pub dirs: BTreeSet<String>,
    /// directories whose read_dir fails
    pub bad_dirs: BTreeMap<String, io::ErrorKind>,
    pub faults: Vec<Fault>,
    pub nread: usize,
    pub nreaddir: usize,
    pub gates: BTreeMap<(String, String), Arc<Gate>>,
    pub sender: Option<EventSender>,
    pub delivery: Delivery,
    pub rot: usize,
    pub trace_reads: bool,
    /// configure_hot_reloading keeps the sender but reports that hot-reloading is not supported
    pub fail_configure: bool,
}

#[derive(Clone)]
pub struct MemSource {
    pub st: Arc<Mutex<State>>,
    pub hot: bool,
    /// label used in traces when several sources exist
    pub label: &'static str,
}

pub fn parent_of(id: &str) -> Option<&str> {
    if id.is_empty() {
        None
    } else {
        match id.rfind('.') {
            Some(n) => Some(&id[..n]),
            None => Some(""),
        }
    }
}

pub fn kind_name(k: io::ErrorKind) -> &'static str {
    match k {
        io::ErrorKind::NotFound => "notfound",
        io::ErrorKind::PermissionDenied => "denied",
        _ => "other",
    }
}

pub fn kind_of(name: &str) -> io::ErrorKind {
    match name {
        "notfound" => io::ErrorKind::NotFound,
        "denied" => io::ErrorKind::PermissionDenied,
        _ => io::ErrorKind::Other,
    }
}

impl MemSource {
    pub fn new(hot: bool) -> Self {
        MemSource {
            st: Arc::new(Mutex::new(State {
                files: BTreeMap::new(),
                dirs: BTreeSet::new(),
                bad_dirs: BTreeMap::new(),
                faults: Vec::new(),
                nread: 0,
                nreaddir: 0,
                gates: BTreeMap::new(),
                sender: None,
                delivery: Delivery::Rotate,
                rot: 0,
                trace_reads: true,
                fail_configure: false,
            })),
            hot,
            label: "S",
        }
    }

    fn lock(&self) -> std::sync::MutexGuard<'_, State> {
        self.st.lock().unwrap_or_else(|e| e.into_inner())
    }

    pub fn put(&self, id: &str, ext: &str, bytes: &[u8]) {
        self.lock().files.insert((id.into(), ext.into()), Content::Bytes(bytes.into()));
    }
    pub fn put_unreadable(&self, id: &str, ext: &str, kind: io::ErrorKind) {
        self.lock().files.insert((id.into(), ext.into()), Content::Unreadable(kind));
    }
    pub fn remove(&self, id: &str, ext: &str) {
        self.lock().files.remove(&(id.to_string(), ext.to_string()));
    }
    pub fn add_dir(&self, id: &str) {
        self.lock().dirs.insert(id.into());
    }
    pub fn remove_dir(&self, id: &str) {
        self.lock().dirs.remove(id);
    }
    pub fn set_bad_dir(&self, id: &str, kind: Option<io::ErrorKind>) {
        let mut s = self.lock();
        match kind {
            Some(k) => {
                s.bad_dirs.insert(id.into(), k);
            }
            None => {
                s.bad_dirs.remove(id);
            }
        }
    }
    pub fn arm(&self, f: Fault) {
        let mut s = self.lock();
        s.nread = 0;
        s.nreaddir = 0;
        s.faults.push(f);
    }
    pub fn disarm(&self) {
        self.lock().faults.clear();
    }
    pub fn set_gate(&self, id: &str, ext: &str, g: Arc<Gate>) {
        self.lock().gates.insert((id.into(), ext.into()), g);
    }
    pub fn clear_gates(&self) {
        self.lock().gates.clear();
    }
    pub fn set_delivery(&self, d: Delivery) {
        self.lock().delivery = d;
    }
    pub fn sender(&self) -> Option<EventSender> {
        self.lock().sender.clone()
    }
    pub fn drop_sender(&self) {
        self.lock().sender = None;
    }

    /// Send one batch of events; logged before the real send.
    pub fn send(&self, entries: &[OwnedDirEntry]) -> bool {
        let sender = self.sender();
        crate::trace::emit(json!({"ev":"Send","batch": entries.iter().map(entry_json).collect::<Vec<_>>()}));
        match sender {
            Some(s) => {
                if entries.len() == 1 {
                    s.send(entries[0].clone()).is_ok()
                } else {
                    s.send_multiple(entries.iter().cloned()).is_ok()
                }
            }
            None => false,
        }
    }

    fn dir_exists(s: &State, id: &str) -> bool {
        if id.is_empty() || s.dirs.contains(id) {
            return true;
        }
        let pre = format!("{id}.");
        s.files.keys().any(|(fid, _)| fid.starts_with(&pre))
            || s.dirs.iter().any(|d| d.starts_with(&pre))
    }

    fn children(s: &State, id: &str) -> Vec<OwnedDirEntry> {
        let mut out = Vec::new();
        let mut subdirs = BTreeSet::new();
        for (fid, ext) in s.files.keys() {
            if parent_of(fid) == Some(id) {
                out.push(OwnedDirEntry::File(fid.as_str().into(), ext.as_str().into()));
            }
            // implied directories
            let mut cur = fid.as_str();
            while let Some(p) = parent_of(cur) {
                if parent_of(p) == Some(id) && !p.is_empty() {
                    subdirs.insert(p.to_string());
                }
                cur = p;
            }
        }
        for d in s.dirs.iter() {
            let mut cur = d.as_str();
            loop {
                if parent_of(cur) == Some(id) && !cur.is_empty() {
                    subdirs.insert(cur.to_string());
                }
                match parent_of(cur) {
                    Some(p) => cur = p,
                    None => break,
                }
            }
        }
        for d in subdirs {
            out.push(OwnedDirEntry::Directory(d.as_str().into()));
        }
        out
    }

    fn check_fault(s: &mut State, what: &'static str) -> Option<io::ErrorKind> {
        let n = if what == "read" { s.nread } else { s.nreaddir };
        let th = crate::trace::thread();
        let mut hit = None;
        let mut counted = false;
        for f in s.faults.iter() {
            if f.what != what {
                continue;
            }
            if let Some(t) = &f.thread {
                if *t != th {
                    continue;
                }
            }
            counted = true;
            if f.at == n {
                hit = Some(f.kind);
            }
        }
        if counted || s.faults.is_empty() {
            if what == "read" {
                s.nread += 1
            } else {
                s.nreaddir += 1
            }
        }
        hit
    }
}

pub fn entry_json(e: &OwnedDirEntry) -> serde_json::Value {
    match e {
        OwnedDirEntry::File(id, ext) => json!({"k":"file","id":id.as_str(),"ext":ext.as_str()}),
        OwnedDirEntry::Directory(id) => json!({"k":"dir","id":id.as_str()}),
    }
}

pub fn entry_from_json(v: &serde_json::Value) -> OwnedDirEntry {
    let id = v["id"].as_str().unwrap_or("");
    if v["k"] == "dir" {
        OwnedDirEntry::Directory(id.into())
    } else {
        OwnedDirEntry::File(id.into(), v["ext"].as_str().unwrap_or("").into())
    }
}

impl Source for MemSource {
    fn read(&self, id: &str, ext: &str) -> io::Result<FileContent<'_>> {
        let gate = self.lock().gates.get(&(id.to_string(), ext.to_string())).cloned();
        if let Some(g) = gate {
            g.pass();
        }
        let mut s = self.lock();
        let fault = Self::check_fault(&mut s, "read");
        let res: io::Result<Arc<[u8]>> = if let Some(k) = fault {
            Err(io::Error::new(k, format!("mem:{id}:{ext}:injected fault")))
        } else {
            match s.files.get(&(id.to_string(), ext.to_string())) {
                Some(Content::Bytes(b)) => Ok(b.clone()),
                Some(Content::Unreadable(k)) => Err(io::Error::new(*k, format!("mem:{id}:{ext}:unreadable file"))),
                None => Err(io::Error::new(io::ErrorKind::NotFound, format!("mem:{id}:{ext}:no such file"))),
            }
        };
        let delivery = match s.delivery {
            Delivery::Rotate => {
                s.rot += 1;
                [Delivery::Slice, Delivery::Buffer, Delivery::Owned][s.rot % 3]
            }
            d => d,
        };
        let tr = s.trace_reads;
        drop(s);
        if tr {
            crate::trace::emit(json!({"ev":"SrcRead","src":self.label,"id":id,"ext":ext,
                "res": match &res { Ok(_) => "ok", Err(e) => kind_name(e.kind()) }}));
        }
        res.map(|b| match delivery {
            Delivery::Buffer => FileContent::Buffer(b.to_vec()),
            Delivery::Owned => FileContent::from_owned(b),
            _ => {
                // a borrowed slice must outlive the call: leak a copy (small test data)
                let leaked: &'static [u8] = Box::leak(b.to_vec().into_boxed_slice());
                FileContent::Slice(leaked)
            }
        })
    }

    fn read_dir(&self, id: &str, f: &mut dyn FnMut(DirEntry)) -> io::Result<()> {
        let mut s = self.lock();
        let fault = Self::check_fault(&mut s, "readdir");
        let res = if let Some(k) = fault {
            Err(io::Error::new(k, format!("mem:{id}::injected fault")))
        } else if let Some(k) = s.bad_dirs.get(id) {
            Err(io::Error::new(*k, format!("mem:{id}::unreadable directory")))
        } else if !Self::dir_exists(&s, id) {
            Err(io::Error::new(io::ErrorKind::NotFound, format!("mem:{id}::no such directory")))
        } else {
            Ok(Self::children(&s, id))
        };
        let tr = s.trace_reads;
        drop(s);
        if tr {
            crate::trace::emit(json!({"ev":"SrcReadDir","src":self.label,"id":id,
                "res": match &res { Ok(_) => "ok", Err(e) => kind_name(e.kind()) }}));
        }
        let entries = res?;
        for e in entries.iter() {
            f(e.as_dir_entry());
        }
        Ok(())
    }

    fn exists(&self, entry: DirEntry) -> bool {
        let s = self.lock();
        match entry {
            DirEntry::File(id, ext) => s.files.contains_key(&(id.to_string(), ext.to_string())),
            DirEntry::Directory(id) => Self::dir_exists(&s, id),
        }
    }

    fn make_source(&self) -> Option<Box<dyn Source + Send>> {
        if self.hot {
            Some(Box::new(self.clone()))
        } else {
            None
        }
    }

    fn configure_hot_reloading(&self, events: EventSender) -> Result<(), BoxedError> {
        if self.hot {
            let mut g = self.lock();
            g.sender = Some(events);
            if g.fail_configure {
                return Err("this source does not support hot-reloading after all".into());
            }
            Ok(())
        } else {
            Err("not hot".into())
        }
    }
}
