//! The cache front-ends behind one dynamic interface, addressed by the type names
//! and ids of the specification.
use crate::mem::MemSource;
use crate::nodes::{top_err_json, HasData};
use crate::{with_compound, with_insertable, with_storable};
use assets_manager::{AsAnyCache, AssetCache, LocalAssetCache};
use serde_json::{json, Value};

pub enum Cache {
    Shared(Box<AssetCache<MemSource>>),
    Static(&'static AssetCache<MemSource>),
    Local(Box<LocalAssetCache<MemSource>>),
}

pub struct Front {
    pub cache: Cache,
    /// go through the `AnyCache` view for every shared-borrow call
    pub any: bool,
    pub src: MemSource,
    pub name: &'static str,
}

macro_rules! on_cache {
    ($s:expr, $c:ident => $e:expr) => {
        match (&$s.cache, $s.any) {
            (Cache::Shared(b), false) => { let $c = &**b; $e }
            (Cache::Shared(b), true) => { let $c = b.as_any_cache(); $e }
            (Cache::Static(b), false) => { let $c = *b; $e }
            (Cache::Static(b), true) => { let $c = b.as_any_cache(); $e }
            (Cache::Local(b), false) => { let $c = &**b; $e }
            (Cache::Local(b), true) => { let $c = b.as_any_cache(); $e }
        }
    };
}

pub fn rid_of(id: assets_manager::ReloadId) -> u64 {
    // ReloadId is opaque; its Debug form is `ReloadId(n)`
    let s = format!("{:?}", id);
    s.trim_start_matches("ReloadId(").trim_end_matches(')').parse().unwrap_or(u64::MAX)
}

pub const VARIANTS_HOT: [&str; 2] = ["shared", "shared_any"];
pub const VARIANTS_COLD: [&str; 7] = ["nohot", "nohot_any", "local", "local_any", "hot_unused", "coldsrc", "failcfg"];

impl Front {
    /// `variant`: shared | shared_any | static | static_any (hot source, reloader)
    ///          | nohot | nohot_any (AssetCache::without_hot_reloading)
    ///          | local | local_any (LocalAssetCache)
    ///          | hot_unused (reloader present, never used)
    ///          | coldsrc (with_source on a source that does not support hot-reloading)
    pub fn new(variant: &'static str, src_hot: MemSource, src_cold: MemSource) -> Front {
        let any = variant.ends_with("_any");
        match variant {
            "shared" | "shared_any" | "hot_unused" => Front {
                cache: Cache::Shared(Box::new(AssetCache::with_source(src_hot.clone()))),
                any,
                src: src_hot,
                name: variant,
            },
            "static" | "static_any" => Front {
                cache: Cache::Static(Box::leak(Box::new(AssetCache::with_source(src_hot.clone())))),
                any,
                src: src_hot,
                name: variant,
            },
            "nohot" | "nohot_any" => Front {
                cache: Cache::Shared(Box::new(AssetCache::without_hot_reloading(src_hot.clone()))),
                any,
                src: src_hot,
                name: variant,
            },
            "failcfg" => {
                // a source whose configure_hot_reloading fails after it kept the EventSender: no reloader
                src_hot.st.lock().unwrap().fail_configure = true;
                Front {
                    cache: Cache::Shared(Box::new(AssetCache::with_source(src_hot.clone()))),
                    any,
                    src: src_hot,
                    name: variant,
                }
            }
            "coldsrc" => Front {
                cache: Cache::Shared(Box::new(AssetCache::with_source(src_cold.clone()))),
                any,
                src: src_cold,
                name: variant,
            },
            "local" | "local_any" => Front {
                cache: Cache::Local(Box::new(LocalAssetCache::with_source(src_hot.clone()))),
                any,
                src: src_hot,
                name: variant,
            },
            other => panic!("unknown front-end {other}"),
        }
    }

    pub fn is_hot(&self) -> bool {
        on_cache!(self, c => c.as_any_cache().is_hot_reloaded())
    }

    pub fn load(&self, ty: &str, id: &str) -> Result<Value, Value> {
        with_compound!(ty, T => on_cache!(self, c => c.load::<T>(id).map(|h| h.read().data()).map_err(|e| top_err_json(&e))),
            panic!("load: bad type {ty}"))
    }

    pub fn load_expect(&self, ty: &str, id: &str) -> Value {
        with_compound!(ty, T => on_cache!(self, c => c.load_expect::<T>(id).read().data()), panic!("bad type {ty}"))
    }

    pub fn owned(&self, ty: &str, id: &str) -> Result<Value, Value> {
        with_compound!(ty, T => on_cache!(self, c => c.load_owned::<T>(id).map(|h| h.data()).map_err(|e| top_err_json(&e))),
            panic!("owned: bad type {ty}"))
    }

    pub fn get(&self, ty: &str, id: &str) -> Option<Value> {
        with_storable!(ty, T => on_cache!(self, c => c.get_cached::<T>(id).map(|h| h.read().data())), panic!("get: bad type {ty}"))
    }

    /// (value, reload id, pointer of the handle)
    pub fn peek(&self, ty: &str, id: &str) -> Option<(Value, u64, usize)> {
        with_storable!(ty, T => on_cache!(self, c => c.get_cached::<T>(id).map(|h| {
            (h.read().data(), rid_of(h.last_reload_id()), h as *const _ as usize)
        })), panic!("peek: bad type {ty}"))
    }

    pub fn peek_untyped(&self, ty: &str, id: &str) -> Option<&assets_manager::UntypedHandle> {
        with_storable!(ty, T => on_cache!(self, c => c.get_cached::<T>(id).map(|h| h.as_untyped())), panic!("peek: bad type {ty}"))
    }

    /// hot_reload with a ReloadWatcher and the global flag of every cached handle checked
    /// around the call (C06). Returns (returned in time, complaints).
    pub fn hot_reload_watched(&self, keys: &[(String, String)], d: std::time::Duration) -> (bool, Vec<Value>) {
        let hs: Vec<_> = keys.iter().filter_map(|(t, i)| self.peek_untyped(t, i).map(|h| (t, i, h))).collect();
        let mut ws: Vec<_> = hs.iter().map(|(t, i, h)| (*t, *i, *h, h.reload_watcher(), h.last_reload_id())).collect();
        let mut bad = Vec::new();
        for (t, i, h, w, _) in ws.iter_mut() {
            // the flag is cleared here for the comparison after the pass; a handle that was NEVER rewritten
            // (its id, read after the flag, is still NEVER) cannot have it set
            let g0 = h.reloaded_global();
            if g0 && rid_of(h.last_reload_id()) == 0 {
                bad.push(json!({"what":"reloaded_global reports a reload of a handle that was never rewritten","ty":t,"id":i}));
            }
            if w.reloaded() {
                bad.push(json!({"what":"fresh ReloadWatcher reports a reload","ty":t,"id":i}));
            }
        }
        let ok = self.hot_reload_timeout(d);
        for (t, i, h, w, before) in ws.iter_mut() {
            let after = h.last_reload_id();
            let changed = after != *before;
            if after < *before {
                bad.push(json!({"what":"reload id decreased","ty":t,"id":i}));
            }
            if w.last_reload_id() != after {
                bad.push(json!({"what":"watcher.last_reload_id differs from the handle's","ty":t,"id":i}));
            }
            let r1 = w.reloaded();
            let r2 = w.reloaded();
            if r1 != changed || r2 {
                bad.push(json!({"what":"ReloadWatcher::reloaded is not (true exactly once iff the id grew)","ty":t,"id":i,
                    "grew":changed,"first":r1,"second":r2}));
            }
            let g1 = h.reloaded_global();
            let g2 = h.reloaded_global();
            if g1 != changed || g2 {
                bad.push(json!({"what":"reloaded_global is not (true exactly once iff the id grew)","ty":t,"id":i,
                    "grew":changed,"first":g1,"second":g2}));
            }
        }
        (ok, bad)
    }

    pub fn contains(&self, ty: &str, id: &str) -> bool {
        with_storable!(ty, T => on_cache!(self, c => c.contains::<T>(id)), panic!("contains: bad type {ty}"))
    }

    pub fn goi(&self, ty: &str, id: &str, n: i64) -> Value {
        with_insertable!(ty, T => {
            let v = T::from_data(json!({"t":"stor","c":n})).unwrap();
            on_cache!(self, c => c.get_or_insert::<T>(id, v).read().data())
        }, panic!("goi: bad type {ty}"))
    }

    pub fn remove(&mut self, ty: &str, id: &str) -> bool {
        with_storable!(ty, T => match &mut self.cache {
            Cache::Shared(b) => b.remove::<T>(id),
            Cache::Local(b) => b.remove::<T>(id),
            Cache::Static(_) => panic!("remove on a 'static cache"),
        }, panic!("remove: bad type {ty}"))
    }

    pub fn take(&mut self, ty: &str, id: &str) -> Option<Value> {
        with_storable!(ty, T => match &mut self.cache {
            Cache::Shared(b) => b.take::<T>(id).map(|v| v.data()),
            Cache::Local(b) => b.take::<T>(id).map(|v| v.data()),
            Cache::Static(_) => panic!("take on a 'static cache"),
        }, panic!("take: bad type {ty}"))
    }

    pub fn clear(&mut self) {
        match &mut self.cache {
            Cache::Shared(b) => b.clear(),
            Cache::Local(b) => b.clear(),
            Cache::Static(_) => panic!("clear on a 'static cache"),
        }
    }

    pub fn hot_reload(&self) {
        match &self.cache {
            Cache::Shared(b) => b.hot_reload(),
            Cache::Static(b) => b.hot_reload(),
            Cache::Local(_) => {}
        }
    }

    /// hot_reload on a helper thread; false if it has not returned after `d`.
    pub fn hot_reload_timeout(&self, d: std::time::Duration) -> bool {
        let c: &AssetCache<MemSource> = match &self.cache {
            Cache::Shared(b) => b,
            Cache::Static(b) => b,
            Cache::Local(_) => return true,
        };
        std::thread::scope(|sc| {
            let (tx, rx) = std::sync::mpsc::channel();
            sc.spawn(move || {
                crate::trace::set_thread("main");
                c.hot_reload();
                let _ = tx.send(());
            });
            match rx.recv_timeout(d) {
                Ok(()) => true,
                Err(_) => {
                    // the scope would join the blocked thread: report from here instead
                    false_exit_hook();
                    false
                }
            }
        })
    }

    pub fn enhance(&self) {
        if let Cache::Static(b) = &self.cache {
            b.enhance_hot_reloading()
        }
    }

    /// With hooks: block until the reloader has dequeued `sent` batches (and, in static
    /// mode, finished the pass of the last one). Without hooks: a short sleep.
    pub fn sync(&self, sent: usize, static_mode: bool) -> bool {
        if !crate::trace::HAS_HOOKS {
            std::thread::sleep(std::time::Duration::from_millis(30));
            return true;
        }
        crate::trace::wait_until(std::time::Duration::from_secs(10), |lines| {
            let mut n = 0;
            let mut last_end = 0;
            let mut last_pass_end = 0;
            let (mut adds_sent, mut adds_drained) = (0usize, 0usize);
            let mut registering = false; // a drained AddAsset whose graph insertion is not logged yet
            for (i, l) in lines.iter().enumerate() {
                match l["ev"].as_str() {
                    Some("EventsEnd") => {
                        n += 1;
                        last_end = i + 1;
                    }
                    Some("PassEnd") => last_pass_end = i + 1,
                    Some("SendAdd") => adds_sent += 1,
                    Some("MsgAddAsset") => {
                        adds_drained += 1;
                        registering = true;
                    }
                    Some("Graph") => registering = false,
                    _ => {}
                }
            }
            // in static mode the pass runs when the events are taken, and the assets it loads for the first time
            // register themselves with messages that the thread drains on its next wake-up: wait for those too
            n >= sent && (!static_mode || sent == 0 || (last_pass_end > last_end && adds_drained >= adds_sent && !registering))
        })
    }
}

/// Called when a hot_reload call is found blocked: the caller prints its report and
/// exits the process (a scoped thread that never returns cannot be joined).
fn false_exit_hook() {
    if let Some(f) = BLOCKED_HOOK.lock().unwrap().as_ref() {
        f();
    }
    println!("REPORT {}", serde_json::json!({"cases":1,"checks":0,"mismatches":[{"what":"hot_reload did not return within the time limit","d8":false}],"notes":["aborted"],"extra":{}}));
    std::process::exit(0);
}

pub static BLOCKED_HOOK: std::sync::Mutex<Option<Box<dyn Fn() + Send>>> = std::sync::Mutex::new(None);
