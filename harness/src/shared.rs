//! C16: SharedBytes / SharedString against spec/SharedBytes.tla and spec/Utf8.tla.
use crate::Report;
use assets_manager::{SharedBytes, SharedString};
use rand::{rngs::StdRng, Rng, SeedableRng};
use serde_json::{json, Value};
use std::borrow::Cow;
use std::collections::hash_map::DefaultHasher;
use std::collections::HashMap;
use std::hash::{Hash, Hasher};
use std::sync::mpsc;

// ---------------------------------------------------------------------------
// allocation ledger (installed as the global allocator by main.rs)
// ---------------------------------------------------------------------------
pub mod ledger {
    use std::alloc::{GlobalAlloc, Layout, System};
    use std::cell::Cell;
    use std::collections::HashMap;
    use std::sync::atomic::{AtomicBool, AtomicI64, AtomicU64, Ordering};
    use std::sync::Mutex;

    pub struct Ledger;
    pub static ON: AtomicBool = AtomicBool::new(false);
    pub static LIVE_BYTES: AtomicI64 = AtomicI64::new(0);
    pub static LIVE_BLOCKS: AtomicI64 = AtomicI64::new(0);
    pub static LAYOUT_MISMATCH: AtomicU64 = AtomicU64::new(0);
    pub static UNKNOWN_FREE: AtomicU64 = AtomicU64::new(0);
    static MAP: Mutex<Option<HashMap<usize, (usize, usize)>>> = Mutex::new(None);
    thread_local! { static INSIDE: Cell<bool> = const { Cell::new(false) }; }
    // allocations are recorded only on a thread that asked for it (around the constructor under
    // test); frees and reallocs of recorded blocks are seen on every thread
    thread_local! { static TRACK: Cell<bool> = const { Cell::new(false) }; }

    pub fn track<T>(f: impl FnOnce() -> T) -> T {
        let _ = TRACK.try_with(|t| t.set(true));
        let r = f();
        let _ = TRACK.try_with(|t| t.set(false));
        r
    }
    fn tracking() -> bool {
        TRACK.try_with(|t| t.get()).unwrap_or(false)
    }

    fn with_map(f: impl FnOnce(&mut HashMap<usize, (usize, usize)>)) {
        let entered = INSIDE.try_with(|i| {
            if i.get() {
                false
            } else {
                i.set(true);
                true
            }
        });
        if entered != Ok(true) {
            return;
        }
        if let Ok(mut g) = MAP.lock() {
            f(g.get_or_insert_with(HashMap::new));
        }
        let _ = INSIDE.try_with(|i| i.set(false));
    }

    unsafe impl GlobalAlloc for Ledger {
        unsafe fn alloc(&self, l: Layout) -> *mut u8 {
            let p = System.alloc(l);
            if ON.load(Ordering::Relaxed) && !p.is_null() && tracking() {
                with_map(|m| {
                    m.insert(p as usize, (l.size(), l.align()));
                    LIVE_BYTES.fetch_add(l.size() as i64, Ordering::Relaxed);
                    LIVE_BLOCKS.fetch_add(1, Ordering::Relaxed);
                });
            }
            p
        }
        unsafe fn dealloc(&self, p: *mut u8, l: Layout) {
            if ON.load(Ordering::Relaxed) {
                with_map(|m| match m.remove(&(p as usize)) {
                    Some((s, a)) => {
                        LIVE_BYTES.fetch_sub(s as i64, Ordering::Relaxed);
                        LIVE_BLOCKS.fetch_sub(1, Ordering::Relaxed);
                        if s != l.size() || a != l.align() {
                            LAYOUT_MISMATCH.fetch_add(1, Ordering::Relaxed);
                        }
                    }
                    None => {}
                });
            }
            System.dealloc(p, l)
        }
        unsafe fn realloc(&self, p: *mut u8, l: Layout, new_size: usize) -> *mut u8 {
            let q = System.realloc(p, l, new_size);
            if ON.load(Ordering::Relaxed) && !q.is_null() {
                let tr = tracking();
                with_map(|m| {
                    let known = m.remove(&(p as usize));
                    if let Some((s, _)) = known {
                        LIVE_BYTES.fetch_sub(s as i64, Ordering::Relaxed);
                        LIVE_BLOCKS.fetch_sub(1, Ordering::Relaxed);
                    }
                    if known.is_some() || tr {
                        m.insert(q as usize, (new_size, l.align()));
                        LIVE_BYTES.fetch_add(new_size as i64, Ordering::Relaxed);
                        LIVE_BLOCKS.fetch_add(1, Ordering::Relaxed);
                    }
                });
            }
            q
        }
    }

    pub fn start() {
        if let Ok(mut g) = MAP.lock() {
            *g = Some(HashMap::new());
        }
        LIVE_BYTES.store(0, Ordering::SeqCst);
        LIVE_BLOCKS.store(0, Ordering::SeqCst);
        ON.store(true, Ordering::SeqCst);
    }
    pub fn stop() {
        ON.store(false, Ordering::SeqCst);
    }
    pub fn live() -> (i64, i64) {
        (LIVE_BLOCKS.load(Ordering::SeqCst), LIVE_BYTES.load(Ordering::SeqCst))
    }
}

pub const PATHS: [&str; 10] = ["slice", "vec_exact", "vec_excess", "vec_empty", "box", "cow_borrowed", "cow_owned", "iter", "vec_big_excess", "vec_empty_big"];

pub fn construct(path: &str, data: &[u8]) -> SharedBytes {
    match path {
        "slice" => SharedBytes::from_slice(data),
        "vec_exact" => {
            let mut v = data.to_vec();
            v.shrink_to_fit();
            SharedBytes::from_vec(v)
        }
        "vec_excess" => {
            let mut v = Vec::with_capacity(data.len() + 37);
            v.extend_from_slice(data);
            SharedBytes::from(v)
        }
        "vec_empty" => SharedBytes::from_vec(Vec::new()),
        "vec_big_excess" => {
            // spare capacity of more than a page: what a read_to_end or a reused buffer leaves behind
            let mut v = Vec::with_capacity(data.len() + 9000);
            v.extend_from_slice(data);
            SharedBytes::from_vec(v)
        }
        "vec_empty_big" => {
            // an EMPTY vector that owns a large buffer; the data is ignored
            let _ = data;
            SharedBytes::from_vec(Vec::with_capacity(8192))
        }
        "box" => SharedBytes::from(data.to_vec().into_boxed_slice()),
        "cow_borrowed" => SharedBytes::from(Cow::Borrowed(data)),
        "cow_owned" => SharedBytes::from(Cow::<[u8]>::Owned(data.to_vec())),
        _ => data.iter().copied().collect(),
    }
}

enum Cmd {
    Clone(u64, u64),
    Read(u64, Vec<u8>),
    Drop(u64),
    Take(u64),
    Put(u64, SharedBytes),
    Quit,
}
enum Reply {
    Done,
    Bad(String),
    Taken(SharedBytes),
}

fn worker(rx: mpsc::Receiver<Cmd>, tx: mpsc::Sender<Reply>) {
    let mut hs: HashMap<u64, SharedBytes> = HashMap::new();
    for c in rx {
        let r = match c {
            Cmd::Clone(h, n) => match hs.get(&h).cloned() {
                Some(c) => {
                    hs.insert(n, c);
                    Reply::Done
                }
                None => Reply::Bad(format!("no handle {h}")),
            },
            Cmd::Read(h, want) => match hs.get(&h) {
                Some(b) if &b[..] == &want[..] && b.len() == want.len() => Reply::Done,
                Some(_) => Reply::Bad("a clone does not dereference to the bytes it was built from".into()),
                None => Reply::Bad(format!("no handle {h}")),
            },
            Cmd::Drop(h) => {
                hs.remove(&h);
                Reply::Done
            }
            Cmd::Take(h) => match hs.remove(&h) {
                Some(b) => Reply::Taken(b),
                None => Reply::Bad(format!("no handle {h}")),
            },
            Cmd::Put(h, b) => {
                hs.insert(h, b);
                Reply::Done
            }
            Cmd::Quit => break,
        };
        let _ = tx.send(r);
    }
}

/// `amv shared-replay <cases.ndjson> <seed>`
pub fn replay(args: &[String]) {
    let cases = crate::read_cases(&args[0]);
    let seed: u64 = args[1].parse().unwrap();
    let mut rng = StdRng::seed_from_u64(seed);
    let mut rep = Report::default();
    let names = ["t1", "t2", "t3"];
    let mut chans = HashMap::new();
    let mut joins = Vec::new();
    for n in names {
        let (ctx, crx) = mpsc::channel();
        let (rtx, rrx) = mpsc::channel();
        joins.push(std::thread::spawn(move || worker(crx, rtx)));
        chans.insert(n.to_string(), (ctx, rrx));
    }
    let call = |t: &str, c: Cmd| -> Reply {
        let (tx, rx) = &chans[t];
        tx.send(c).unwrap();
        rx.recv().unwrap()
    };
    for (ci, beh) in cases.iter().enumerate() {
        rep.cases += 1;
        let path = PATHS[ci % PATHS.len()];
        let len = if path == "vec_empty" || path == "vec_empty_big" { 0 } else { [0usize, 1, 31, 4096, 7][rng.gen_range(0..5)] };
        let data: Vec<u8> = (0..len).map(|_| rng.gen()).collect();
        ledger::start();
        let before = ledger::live();
        let first = ledger::track(|| construct(path, &data));
        // the specification starts with handle 1 owned by some thread: find it from the first step
        let steps = beh.as_array().unwrap();
        let mut owner: HashMap<u64, String> = HashMap::new();
        let t0 = steps.first().map(|s| s["t"].as_str().unwrap().to_string()).unwrap_or("t1".into());
        let h1_owner = steps.iter().find(|s| s["h"] == 1).map(|s| s["t"].as_str().unwrap().to_string()).unwrap_or(t0);
        call(&h1_owner, Cmd::Put(1, first));
        owner.insert(1, h1_owner);
        let mut bad = None;
        for (i, s) in steps.iter().enumerate() {
            rep.checks += 1;
            let t = s["t"].as_str().unwrap();
            let h = s["h"].as_u64().unwrap_or(0);
            let r = match s["op"].as_str().unwrap() {
                "clone" => {
                    owner.insert(s["new"].as_u64().unwrap(), t.to_string());
                    call(t, Cmd::Clone(h, s["new"].as_u64().unwrap()))
                }
                "read" => call(t, Cmd::Read(h, data.clone())),
                "drop" => {
                    owner.remove(&h);
                    call(t, Cmd::Drop(h))
                }
                "send" => match call(t, Cmd::Take(h)) {
                    Reply::Taken(b) => {
                        let to = s["to"].as_str().unwrap();
                        owner.insert(h, to.to_string());
                        call(to, Cmd::Put(h, b))
                    }
                    other => other,
                },
                _ => Reply::Done, // "free" is internal to the drop
            };
            if let Reply::Bad(m) = r {
                bad = Some(json!({"what": m, "step": i, "path": path, "len": len, "behaviour": beh}));
                break;
            }
            // released exactly when the specification says so
            let spec_freed = s["freed"] == true;
            let (blocks, _) = ledger::live();
            let held = blocks - before.0;
            if spec_freed && held > 0 && s["op"] == "free" {
                bad = Some(json!({"what":"the buffer is still allocated after the last clone was dropped","step":i,"path":path,"len":len,"behaviour":beh}));
                break;
            }
            if !spec_freed && s["count"].as_i64().unwrap_or(0) > 0 && held <= 0 {
                bad = Some(json!({"what":"the buffer was released while clones are alive","step":i,"path":path,"len":len,"behaviour":beh}));
                break;
            }
        }
        // drop whatever is still alive
        for (h, t) in owner.iter() {
            call(t, Cmd::Drop(*h));
        }
        let after = ledger::live();
        ledger::stop();
        if bad.is_none() && after != before {
            bad = Some(json!({"what":"allocation ledger is not balanced after every clone was dropped","path":path,"len":len,
                "blocks":after.0 - before.0,"bytes":after.1 - before.1,"behaviour":beh}));
        }
        if bad.is_none() && ledger::LAYOUT_MISMATCH.load(std::sync::atomic::Ordering::SeqCst) > 0 {
            bad = Some(json!({"what":"a block was freed with another layout than it was allocated with","path":path,"len":len,"behaviour":beh}));
            ledger::LAYOUT_MISMATCH.store(0, std::sync::atomic::Ordering::SeqCst);
        }
        if let Some(b) = bad {
            rep.mismatch(b);
        }
    }
    for (_, (tx, _)) in chans.iter() {
        let _ = tx.send(Cmd::Quit);
    }
    for j in joins {
        let _ = j.join();
    }
    // free-running clone/drop across threads with the ledger on
    for round in 0..30 {
        rep.cases += 1;
        let path = PATHS[round % PATHS.len()];
        let data: Vec<u8> = (0..if path == "vec_empty" || path == "vec_empty_big" { 0 } else { 1 + round * 13 }).map(|_| rng.gen()).collect();
        ledger::start();
        let before = ledger::live();
        {
            let b = ledger::track(|| construct(path, &data));
            std::thread::scope(|sc| {
                for _ in 0..4 {
                    let mine = b.clone();
                    let data = &data;
                    sc.spawn(move || {
                        let mut v = vec![mine];
                        for i in 0..200 {
                            if i % 3 == 2 {
                                v.pop();
                            } else if let Some(c) = v.last().cloned() {
                                if &c[..] != &data[..] {
                                    panic!("content changed");
                                }
                                v.push(c);
                            }
                            if v.is_empty() {
                                break;
                            }
                        }
                    });
                }
            });
        }
        let after = ledger::live();
        ledger::stop();
        if after != before || ledger::LAYOUT_MISMATCH.swap(0, std::sync::atomic::Ordering::SeqCst) > 0 {
            rep.mismatch(json!({"what":"concurrent clone/drop: ledger not balanced or layout mismatch","path":path,"blocks":after.0 - before.0}));
        }
    }
    // the last two clones dropped at the same instant on two threads: released exactly once
    {
        let rounds = 20_000usize;
        let data = vec![7u8; 24];
        ledger::start();
        let before = ledger::live();
        let slots: Vec<std::sync::Mutex<Option<SharedBytes>>> = (0..2).map(|_| std::sync::Mutex::new(None)).collect();
        let go = std::sync::atomic::AtomicUsize::new(0);
        let done = std::sync::atomic::AtomicUsize::new(0);
        std::thread::scope(|sc| {
            for t in 0..2 {
                let (slots, go, done) = (&slots, &go, &done);
                sc.spawn(move || {
                    for r in 0..rounds {
                        while go.load(std::sync::atomic::Ordering::Acquire) < r + 1 {
                            std::hint::spin_loop();
                        }
                        let mine = slots[t].lock().unwrap().take();
                        drop(mine);
                        done.fetch_add(1, std::sync::atomic::Ordering::SeqCst);
                    }
                });
            }
            for r in 0..rounds {
                let b = ledger::track(|| construct(PATHS[r % 2 * 2], &data)); // "slice" / "vec_excess"
                *slots[0].lock().unwrap() = Some(b.clone());
                *slots[1].lock().unwrap() = Some(b);
                done.store(0, std::sync::atomic::Ordering::SeqCst);
                go.store(r + 1, std::sync::atomic::Ordering::Release);
                while done.load(std::sync::atomic::Ordering::SeqCst) < 2 {
                    std::hint::spin_loop();
                }
            }
        });
        let after = ledger::live();
        ledger::stop();
        rep.cases += 1;
        if after != before || ledger::LAYOUT_MISMATCH.swap(0, std::sync::atomic::Ordering::SeqCst) > 0 {
            rep.mismatch(json!({"what":"the last two clones dropped concurrently: the buffer is not released exactly once",
                "rounds":rounds,"blocks_left":after.0 - before.0,"bytes_left":after.1 - before.1}));
        }
    }
    // assignment through Clone::clone_from (also what Option / Vec forward to): the replaced buffer is released
    {
        ledger::start();
        let before = ledger::live();
        for round in 0..40usize {
            let d1: Vec<u8> = vec![round as u8; 100 + round];
            let d2: Vec<u8> = vec![(round + 1) as u8; 300 + round];
            let pa = PATHS[round % 8];
            let mut a = ledger::track(|| construct(if pa == "vec_empty" { "slice" } else { pa }, &d1));
            let b = ledger::track(|| construct("vec_excess", &d2));
            a.clone_from(&b);
            let ok1 = &a[..] == &d2[..];
            let same = a.clone();
            a.clone_from(&same); // onto a handle of the same buffer
            let mut oa = Some(ledger::track(|| construct("slice", &d1)));
            oa.clone_from(&Some(b.clone()));
            let mut va = vec![ledger::track(|| construct("box", &d1)), ledger::track(|| construct("iter", &d1))];
            va.clone_from(&vec![b.clone()]);
            let ok2 = oa.as_deref() == Some(&d2[..]) && va.len() == 1 && &va[0][..] == &d2[..];
            if !ok1 || !ok2 {
                rep.mismatch(json!({"what":"clone_from does not give the contents of its source","round":round}));
            }
        }
        let after = ledger::live();
        ledger::stop();
        rep.cases += 1;
        if after != before || ledger::LAYOUT_MISMATCH.swap(0, std::sync::atomic::Ordering::SeqCst) > 0 {
            rep.mismatch(json!({"what":"a buffer replaced through clone_from (directly, in an Option, in a Vec) is not released exactly once",
                "blocks_left":after.0 - before.0,"bytes_left":after.1 - before.1}));
        }
    }
    // compare / order / hash like the slices
    for _ in 0..2000 {
        rep.checks += 1;
        let a: Vec<u8> = (0..rng.gen_range(0..6)).map(|_| rng.gen_range(0..4)).collect();
        let b: Vec<u8> = (0..rng.gen_range(0..6)).map(|_| rng.gen_range(0..4)).collect();
        let pa = PATHS[rng.gen_range(0..9usize)];
        let (sa, sb) = (construct(if pa == "vec_empty" && !a.is_empty() { "slice" } else { pa }, &a), construct("slice", &b));
        let h = |x: &dyn Fn(&mut DefaultHasher)| {
            let mut s = DefaultHasher::new();
            x(&mut s);
            s.finish()
        };
        if (sa == sb) != (a == b) || sa.cmp(&sb) != a.cmp(&b) || sa.partial_cmp(&sb) != a.partial_cmp(&b)
            || h(&|s| sa.hash(s)) != h(&|s| a[..].hash(s))
        {
            rep.mismatch(json!({"what":"SharedBytes does not compare/order/hash like the slice it holds","a":a,"b":b}));
        }
        {
            let bs: &[u8] = &b[..];
            let bv: Vec<u8> = b.to_vec();
            let ar: &[u8] = sa.as_ref();
            let bo: &[u8] = std::borrow::Borrow::borrow(&sa);
            let from_ref = SharedBytes::from(&sa);
            if (sa == *bs) != (a == b) || (sa == bs) != (a == b) || (sa == bv) != (a == b)
                || PartialOrd::<[u8]>::partial_cmp(&sa, bs) != Some(a[..].cmp(&b[..]))
                || (sa < sb) != (a < b) || (sa >= sb) != (a >= b)
                || ar != &a[..] || bo != &a[..] || &from_ref[..] != &a[..] || format!("{sa:?}") != format!("{:?}", &a[..])
            {
                rep.mismatch(json!({"what":"a comparison or conversion impl of SharedBytes disagrees with the same operation on the slice it holds","a":a,"b":b}));
            }
        }
        if let (Ok(x), Ok(y)) = (std::str::from_utf8(&a), std::str::from_utf8(&b)) {
            let (ss, st) = (SharedString::from(x), SharedString::from(y.to_string()));
            if (ss == st) != (x == y) || ss.cmp(&st) != x.cmp(y) || h(&|s| ss.hash(s)) != h(&|s| x.hash(s)) || ss.as_str() != x
                || &*SharedString::from(Cow::Borrowed(x)) != x || ss.to_string() != x || &ss.clone().into_bytes()[..] != x.as_bytes()
            {
                rep.mismatch(json!({"what":"SharedString does not compare/order/hash/deref like the str it holds","a":x,"b":y}));
            }
            // every comparison and conversion impl, against the same operation on the strs
            let ys = y.to_string();
            let p: &std::path::Path = ss.as_ref();
            let o: &std::ffi::OsStr = ss.as_ref();
            let b: &[u8] = ss.as_ref();
            let bo: &str = std::borrow::Borrow::borrow(&ss);
            if ss.partial_cmp(&st) != x.partial_cmp(y) || PartialOrd::<str>::partial_cmp(&ss, y) != Some(x.cmp(y))
                || (ss == *y) != (x == y) || (ss == y) != (x == y) || (ss == ys) != (x == y)
                || (ss < st) != (x < y) || (ss >= st) != (x >= y)
                || p != std::path::Path::new(x) || o != std::ffi::OsStr::new(x) || b != x.as_bytes() || bo != x
                || format!("{ss}") != x || format!("{ss:?}") != format!("{x:?}")
            {
                rep.mismatch(json!({"what":"a comparison or conversion impl of SharedString disagrees with the same operation on the str it holds","a":x,"b":y}));
            }
        }
    }
    // long strings: hash / eq / ord / lookups by &str around typical thresholds
    for len in [0usize, 1, 63, 64, 65, 255, 256, 1023, 1024, 1025, 4095, 4096, 5001, 70_000] {
        rep.checks += 1;
        let base: String = (0..len).map(|i| ["a", "\u{e9}", "\u{65e5}", "\u{1F600}"][i % 4]).collect::<String>();
        let other = format!("{}x", &base[..base.len().saturating_sub(0)]);
        let (sa, sb) = (SharedString::from(base.as_str()), SharedString::from(other.clone()));
        let hs = |f: &dyn Fn(&mut DefaultHasher)| { let mut s = DefaultHasher::new(); f(&mut s); s.finish() };
        let mut set = std::collections::HashSet::new();
        set.insert(sa.clone());
        let mut map = std::collections::BTreeMap::new();
        map.insert(sa.clone(), 1);
        if hs(&|s| sa.hash(s)) != hs(&|s| base.as_str().hash(s)) || !set.contains(base.as_str()) || set.contains(other.as_str())
            || map.get(base.as_str()) != Some(&1) || (sa == sb) || sa.cmp(&sb) != base.as_str().cmp(other.as_str())
            || hs(&|s| sa.clone().into_bytes().hash(s)) != hs(&|s| base.as_bytes().hash(s))
        {
            rep.mismatch(json!({"what":"a long SharedString does not hash / compare / look up like its str","len":base.len()}));
        }
    }
    rep.print();
}

// ---------------------------------------------------------------------------
// UTF-8: the verdict of spec/Utf8.tla for every class sequence
// ---------------------------------------------------------------------------
fn class_bytes(c: &str) -> Vec<u8> {
    match c {
        "A" => vec![0x00, 0x41, 0x7f],
        "T1" => vec![0x80, 0x8f],
        "T2" => vec![0x90, 0x9f],
        "T3" => vec![0xa0, 0xbf],
        "L2" => vec![0xc2, 0xdf],
        "E0" => vec![0xe0],
        "E1" => vec![0xe1, 0xec],
        "ED" => vec![0xed],
        "EE" => vec![0xee, 0xef],
        "F0" => vec![0xf0],
        "F1" => vec![0xf1, 0xf3],
        "F4" => vec![0xf4],
        _ => vec![0xc0, 0xc1, 0xf5, 0xff],
    }
}

struct BytesDe {
    bytes: Vec<u8>,
    mode: u8,
}
impl<'de> serde::Deserializer<'de> for BytesDe {
    type Error = serde::de::value::Error;
    fn deserialize_any<V: serde::de::Visitor<'de>>(self, v: V) -> Result<V::Value, Self::Error> {
        match self.mode {
            0 => v.visit_bytes(&self.bytes),
            1 => v.visit_byte_buf(self.bytes),
            2 => match std::str::from_utf8(&self.bytes) {
                Ok(s) => v.visit_str(s),
                Err(_) => v.visit_bytes(&self.bytes),
            },
            _ => match String::from_utf8(self.bytes.clone()) {
                Ok(s) => v.visit_string(s),
                Err(_) => v.visit_byte_buf(self.bytes),
            },
        }
    }
    serde::forward_to_deserialize_any! {
        bool i8 i16 i32 i64 i128 u8 u16 u32 u64 u128 f32 f64 char str string bytes byte_buf option unit unit_struct
        newtype_struct seq tuple tuple_struct map struct enum identifier ignored_any
    }
}

/// `amv utf8-replay <cases.ndjson>`
pub fn utf8(args: &[String]) {
    let cases = crate::read_cases(&args[0]);
    let mut rep = Report::default();
    for c in cases.iter() {
        rep.cases += 1;
        let classes: Vec<&str> = c["s"].as_array().unwrap().iter().map(|x| x.as_str().unwrap()).collect();
        let ok = c["ok"] == true;
        // every combination of the boundary bytes of each class
        let choices: Vec<Vec<u8>> = classes.iter().map(|c| class_bytes(c)).collect();
        let total: usize = choices.iter().map(|c| c.len()).product();
        for k in 0..total.min(81) {
            let mut idx = k;
            let bytes: Vec<u8> = choices.iter().map(|c| { let b = c[idx % c.len()]; idx /= c.len(); b }).collect();
            rep.checks += 1;
            let r = SharedString::from_utf8(SharedBytes::from_slice(&bytes));
            let std_ok = std::str::from_utf8(&bytes).is_ok();
            let mut bad = r.is_ok() != ok;
            if let Ok(s) = &r {
                bad |= s.as_bytes() != &bytes[..];
            }
            for mode in 0..4u8 {
                let d: Result<SharedString, _> = serde::Deserialize::deserialize(BytesDe { bytes: bytes.clone(), mode });
                bad |= d.is_ok() != ok;
                if let Ok(s) = d {
                    bad |= s.as_bytes() != &bytes[..];
                }
            }
            if bad || std_ok != ok {
                rep.mismatch(json!({"what":"SharedString accepts a byte sequence iff Utf8.tla says it is well-formed: violated",
                    "classes":classes,"bytes":bytes,"spec":ok,"from_utf8":r.is_ok(),"std":std_ok}));
            }
            // the same sequence inside a long ASCII text (well-formedness is unchanged by ASCII around it):
            // every size class of the buffer, the sequence at the very end or followed by a few bytes
            if k < 9 {
                for pre in [7usize, 61, 64, 65, 127, 200, 1021, 4093] {
                    for suf in [0usize, 1, 3, 8] {
                        rep.checks += 1;
                        let mut long: Vec<u8> = std::iter::repeat(b'a').take(pre).collect();
                        long.extend_from_slice(&bytes);
                        long.extend(std::iter::repeat(b'z').take(suf));
                        let r = SharedString::from_utf8(SharedBytes::from_vec(long.clone()));
                        let good = match &r {
                            Ok(s) => ok && s.as_bytes() == &long[..],
                            Err(_) => !ok,
                        };
                        if !good {
                            rep.mismatch(json!({"what":"SharedString accepts a byte sequence iff Utf8.tla says it is well-formed: violated inside a long ASCII text",
                                "classes":classes,"bytes":bytes,"ascii_before":pre,"ascii_after":suf,"spec":ok,"from_utf8":r.is_ok()}));
                        }
                    }
                }
            }
        }
    }
    rep.print();
}

pub fn unused(_: &Value) {}
