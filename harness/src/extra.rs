//! Small directed conformance runs that the script interpreter cannot express:
//! Handle::get stability (C10), helper threads and a second cache inside a load (C14).
use crate::assets::Leaf;
use crate::front::rid_of;
use crate::mem::MemSource;
use crate::nodes::{HasData, Node, Stor};
use crate::{trace, Report};
use assets_manager::source::OwnedDirEntry;
use assets_manager::{AnyCache, AssetCache, BoxedError, Compound, LocalAssetCache, SharedString};
use serde_json::{json, Value};
use std::sync::OnceLock;

fn wait_events(n: usize) -> bool {
    if !trace::HAS_HOOKS {
        std::thread::sleep(std::time::Duration::from_millis(50));
        return true;
    }
    trace::wait_until(std::time::Duration::from_secs(10), |l| l.iter().filter(|x| x["ev"] == "EventsEnd").count() >= n)
}

/// `amv c10-get <seed>`
pub fn c10_get(_args: &[String]) {
    let mut rep = Report::default();
    trace::enable();
    crate::nodes::set_scripts(&json!([{"ty":"N4","id":"a","script":[{"op":"read","id":"a","ext":"x"}]}]));
    for ctor in ["hot", "nohot", "coldsrc", "local"] {
        rep.cases += 1;
        trace::take();
        let src = MemSource::new(ctor != "coldsrc");
        src.put("a", "x", b"v1");
        macro_rules! body {
            ($cache:expr, $hot:expr, $hr:expr) => {{
                let cache = $cache;
                let l = cache.load::<Leaf<2>>("a").unwrap();
                let n = cache.load::<Node<4>>("a").unwrap();
                let s = cache.get_or_insert::<Stor>("a", Stor::from_data(json!({"t":"stor","c":7})).unwrap());
                let g = cache.get_or_insert::<Leaf<0>>("g", Leaf::from_data(json!({"t":"stor","c":8})).unwrap());
                let r = std::panic::catch_unwind(std::panic::AssertUnwindSafe(|| {
                    (l.get() as *const _ as usize, n.get() as *const _ as usize, s.get() as *const _ as usize,
                     l.get().data(), n.get().data(), s.get().data())
                }));
                let before = match r {
                    Ok(b) => b,
                    Err(_) => {
                        rep.mismatch(json!({"what":"Handle::get panicked on a type that opts out of hot-reloading","ctor":ctor}));
                        continue;
                    }
                };
                let gval = g.read().data();
                for round in 1..=3 {
                    src.put("a", "x", format!("v{}", round + 1).as_bytes());
                    src.put("g", "x", b"v9");
                    if $hot {
                        src.send(&[OwnedDirEntry::File("a".into(), "x".into()), OwnedDirEntry::File("g".into(), "x".into())]);
                        wait_events(round);
                    }
                    ($hr)(&cache);
                    rep.checks += 1;
                    let after = (l.get() as *const _ as usize, n.get() as *const _ as usize, s.get() as *const _ as usize,
                                 l.get().data(), n.get().data(), s.get().data());
                    if after != before {
                        rep.mismatch(json!({"what":"a reference obtained with Handle::get changed after a notified edit","ctor":ctor}));
                    }
                    if rid_of(l.last_reload_id()) != 0 || rid_of(n.last_reload_id()) != 0 || rid_of(s.last_reload_id()) != 0
                        || rid_of(g.last_reload_id()) != 0 || l.reloaded_global() || g.reloaded_global() || g.read().data() != gval {
                        rep.mismatch(json!({"what":"a non-reloadable entry reports a reload or changed","ctor":ctor}));
                    }
                }
            }};
        }
        match ctor {
            "hot" => body!(AssetCache::with_source(src.clone()), true, |c: &AssetCache<MemSource>| c.hot_reload()),
            "nohot" => body!(AssetCache::without_hot_reloading(src.clone()), false, |c: &AssetCache<MemSource>| c.hot_reload()),
            "coldsrc" => body!(AssetCache::with_source(src.clone()), false, |c: &AssetCache<MemSource>| c.hot_reload()),
            _ => body!(LocalAssetCache::with_source(src.clone()), false, |_c: &LocalAssetCache<MemSource>| ()),
        }
    }
    rep.print();
}

static MAIN: OnceLock<&'static AssetCache<MemSource>> = OnceLock::new();
static OTHER: OnceLock<&'static AssetCache<MemSource>> = OnceLock::new();

/// loads "m" itself, "h" on a helper thread, "f" through another cache
pub struct Mixed(pub Value);
impl Compound for Mixed {
    fn load(cache: AnyCache, _id: &SharedString) -> Result<Self, BoxedError> {
        let m = cache.load::<Leaf<0>>("m")?.read().data();
        let main = *MAIN.get().unwrap();
        let h = std::thread::scope(|s| {
            s.spawn(|| {
                trace::set_thread("helper");
                main.load::<Leaf<0>>("h").map(|x| x.read().data())
            })
            .join()
            .unwrap()
        })?;
        let f = OTHER.get().unwrap().load::<Leaf<0>>("f")?.read().data();
        let after = cache.load::<Leaf<0>>("z")?.read().data();
        Ok(Mixed(json!([m, h, f, after])))
    }
}

/// `amv c14-extra <seed>`
pub fn c14_extra(_args: &[String]) {
    let mut rep = Report::default();
    trace::enable();
    trace::take();
    let src = MemSource::new(true);
    let mut src2 = MemSource::new(true);
    src2.label = "S2";
    for (s, id) in [(&src, "m"), (&src, "h"), (&src2, "f"), (&src, "z")] {
        s.put(id, "x", b"v1");
    }
    let main: &'static AssetCache<MemSource> = Box::leak(Box::new(AssetCache::with_source(src.clone())));
    let other: &'static AssetCache<MemSource> = Box::leak(Box::new(AssetCache::with_source(src2.clone())));
    let _ = MAIN.set(main);
    let _ = OTHER.set(other);
    let mixed = main.load::<Mixed>("mix").expect("load mix");
    rep.cases += 1;
    let mut sent = 0;
    let ids = |k: &str| (rid_of(mixed.last_reload_id()), rid_of(main.load::<Leaf<0>>(k).unwrap().last_reload_id()));
    // editing what the helper thread / the other cache read must not reload `mix`
    for (s, cache, id, expect_mix) in [(&src, main, "h", false), (&src2, other, "f", false), (&src, main, "m", true), (&src, main, "z", true)] {
        rep.cases += 1;
        let before = rid_of(mixed.last_reload_id());
        s.put(id, "x", b"v2");
        s.send(&[OwnedDirEntry::File(id.into(), "x".into())]);
        sent += 1;
        // both reloaders emit EventsEnd: wait for the total
        wait_events(sent);
        cache.hot_reload();
        main.hot_reload();
        let after = rid_of(mixed.last_reload_id());
        rep.checks += 1;
        if (after != before) != expect_mix {
            rep.mismatch(json!({"what": if expect_mix { "an edit of an entry the load read itself did not reload the asset" }
                else { "an edit of an entry read on a helper thread / through another cache reloaded the asset" }, "entry": id}));
        }
        let leaf = rid_of(cache.load::<Leaf<0>>(id).unwrap().last_reload_id());
        if leaf == 0 {
            rep.mismatch(json!({"what":"the asset owning the edited file was not reloaded","entry":id}));
        }
    }
    let _ = ids;
    // the registered dependency set of `mix`: exactly Asset(L0:m), Asset(L0:z)
    if trace::HAS_HOOKS {
        let mut last = None;
        trace::scan(|l| {
            if l["ev"] == "Graph" && l["key"]["id"] == "mix" {
                last = Some(l["deps"].clone());
            }
        });
        rep.checks += 1;
        let mut got: Vec<String> = last
            .and_then(|d| d.as_array().cloned())
            .unwrap_or_default()
            .iter()
            .map(|d| format!("{}:{}", d["k"].as_str().unwrap_or("?"), d["id"].as_str().unwrap_or("?")))
            .collect();
        got.sort();
        if got != vec!["asset:m".to_string(), "asset:z".to_string()] {
            rep.mismatch(json!({"what":"dependencies registered for an asset that also loads on a helper thread and through another cache","got":got}));
        }
    }
    rep.print();
}
