//! Small directed conformance runs that the script interpreter cannot express:
//! Handle::get stability (C10), helper threads and a second cache inside a load (C14).
use crate::assets::Leaf;
use crate::front::rid_of;
use crate::mem::MemSource;
use crate::nodes::{HasData, Node, Stor};
use crate::{trace, Report};
use assets_manager::source::OwnedDirEntry;
use assets_manager::{AnyCache, AssetCache, BoxedError, Compound, LocalAssetCache, SharedString};
use serde_json::{json, Value};
use std::sync::OnceLock;

fn wait_events(n: usize) -> bool {
    if !trace::HAS_HOOKS {
        std::thread::sleep(std::time::Duration::from_millis(50));
        return true;
    }
    trace::wait_until(std::time::Duration::from_secs(10), |l| l.iter().filter(|x| x["ev"] == "EventsEnd").count() >= n)
}

/// `amv c10-get <seed>`
pub fn c10_get(_args: &[String]) {
    let mut rep = Report::default();
    trace::enable();
    crate::nodes::set_scripts(&json!([{"ty":"N4","id":"a","script":[{"op":"read","id":"a","ext":"x"}]}]));
    for ctor in ["hot", "nohot", "coldsrc", "local"] {
        rep.cases += 1;
        trace::take();
        let src = MemSource::new(ctor != "coldsrc");
        src.put("a", "x", b"v1");
        macro_rules! body {
            ($cache:expr, $hot:expr, $hr:expr) => {{
                let cache = $cache;
                let l = cache.load::<Leaf<2>>("a").unwrap();
                let n = cache.load::<Node<4>>("a").unwrap();
                let s = cache.get_or_insert::<Stor>("a", Stor::from_data(json!({"t":"stor","c":7})).unwrap());
                let g = cache.get_or_insert::<Leaf<0>>("g", Leaf::from_data(json!({"t":"stor","c":8})).unwrap());
                let r = std::panic::catch_unwind(std::panic::AssertUnwindSafe(|| {
                    (l.get() as *const _ as usize, n.get() as *const _ as usize, s.get() as *const _ as usize,
                     l.get().data(), n.get().data(), s.get().data())
                }));
                let before = match r {
                    Ok(b) => b,
                    Err(_) => {
                        rep.mismatch(json!({"what":"Handle::get panicked on a type that opts out of hot-reloading","ctor":ctor}));
                        continue;
                    }
                };
                let gval = g.read().data();
                for round in 1..=3 {
                    src.put("a", "x", format!("v{}", round + 1).as_bytes());
                    src.put("g", "x", b"v9");
                    if $hot {
                        src.send(&[OwnedDirEntry::File("a".into(), "x".into()), OwnedDirEntry::File("g".into(), "x".into())]);
                        wait_events(round);
                    }
                    ($hr)(&cache);
                    rep.checks += 1;
                    let after = (l.get() as *const _ as usize, n.get() as *const _ as usize, s.get() as *const _ as usize,
                                 l.get().data(), n.get().data(), s.get().data());
                    if after != before {
                        rep.mismatch(json!({"what":"a reference obtained with Handle::get changed after a notified edit","ctor":ctor}));
                    }
                    if rid_of(l.last_reload_id()) != 0 || rid_of(n.last_reload_id()) != 0 || rid_of(s.last_reload_id()) != 0
                        || rid_of(g.last_reload_id()) != 0 || l.reloaded_global() || g.reloaded_global() || g.read().data() != gval {
                        rep.mismatch(json!({"what":"a non-reloadable entry reports a reload or changed","ctor":ctor}));
                    }
                }
            }};
        }
        match ctor {
            "hot" => body!(AssetCache::with_source(src.clone()), true, |c: &AssetCache<MemSource>| c.hot_reload()),
            "nohot" => body!(AssetCache::without_hot_reloading(src.clone()), false, |c: &AssetCache<MemSource>| c.hot_reload()),
            "coldsrc" => body!(AssetCache::with_source(src.clone()), false, |c: &AssetCache<MemSource>| c.hot_reload()),
            _ => body!(LocalAssetCache::with_source(src.clone()), false, |_c: &LocalAssetCache<MemSource>| ()),
        }
    }
    rep.print();
}

static MAIN: OnceLock<&'static AssetCache<MemSource>> = OnceLock::new();
static OTHER: OnceLock<&'static AssetCache<MemSource>> = OnceLock::new();

/// loads "m" itself, "h" on a helper thread, "f" through another cache
pub struct Mixed(pub Value);
impl Compound for Mixed {
    fn load(cache: AnyCache, _id: &SharedString) -> Result<Self, BoxedError> {
        let m = cache.load::<Leaf<0>>("m")?.read().data();
        let main = *MAIN.get().unwrap();
        let h = std::thread::scope(|s| {
            s.spawn(|| {
                trace::set_thread("helper");
                main.load::<Leaf<0>>("h").map(|x| x.read().data())
            })
            .join()
            .unwrap()
        })?;
        let f = OTHER.get().unwrap().load::<Leaf<0>>("f")?.read().data();
        let after = cache.load::<Leaf<0>>("z")?.read().data();
        Ok(Mixed(json!([m, h, f, after])))
    }
}

static COLD: OnceLock<&'static AssetCache<MemSource>> = OnceLock::new();
static LOCAL_COLD: OnceLock<usize> = OnceLock::new();

/// loads "m" itself, and "nr" inside `no_record` called on OTHER caches (one without a reloader, one
/// hot-reloaded): recording is a switch of the thread, whichever cache it is asked through
pub struct NoRecVia(pub Value);
impl Compound for NoRecVia {
    fn load(cache: AnyCache, _id: &SharedString) -> Result<Self, BoxedError> {
        let m = cache.load::<Leaf<0>>("m")?.read().data();
        let cold = *COLD.get().unwrap();
        let a = cold.no_record(|| cache.load::<Leaf<0>>("nr").map(|h| h.read().data()))?;
        let other = *OTHER.get().unwrap();
        let b = other.no_record(|| cache.load::<Leaf<0>>("nr2").map(|h| h.read().data()))?;
        let c = cold.as_any_cache().no_record(|| cache.load::<Leaf<0>>("nr3").map(|h| h.read().data()))?;
        let _ = LOCAL_COLD.get();
        Ok(NoRecVia(json!([m, a, b, c])))
    }
}

/// `amv c14-extra <seed>`
pub fn c14_extra(_args: &[String]) {
    let mut rep = Report::default();
    trace::enable();
    trace::take();
    let src = MemSource::new(true);
    let mut src2 = MemSource::new(true);
    src2.label = "S2";
    for (s, id) in [(&src, "m"), (&src, "h"), (&src2, "f"), (&src, "z")] {
        s.put(id, "x", b"v1");
    }
    let main: &'static AssetCache<MemSource> = Box::leak(Box::new(AssetCache::with_source(src.clone())));
    let other: &'static AssetCache<MemSource> = Box::leak(Box::new(AssetCache::with_source(src2.clone())));
    let _ = MAIN.set(main);
    let _ = OTHER.set(other);
    let mixed = main.load::<Mixed>("mix").expect("load mix");
    rep.cases += 1;
    let mut sent = 0;
    let ids = |k: &str| (rid_of(mixed.last_reload_id()), rid_of(main.load::<Leaf<0>>(k).unwrap().last_reload_id()));
    // editing what the helper thread / the other cache read must not reload `mix`
    // the main cache has its own asset with the id and type of the one `mix` looked up in the other cache
    src.put("f", "x", b"v1");
    let _ = main.load::<Leaf<0>>("f").expect("main's own f");
    for (s, cache, id, expect_mix) in [(&src, main, "h", false), (&src2, other, "f", false), (&src, main, "f", false), (&src, main, "m", true), (&src, main, "z", true)] {
        rep.cases += 1;
        let before = rid_of(mixed.last_reload_id());
        s.put(id, "x", b"v2");
        s.send(&[OwnedDirEntry::File(id.into(), "x".into())]);
        sent += 1;
        // both reloaders emit EventsEnd: wait for the total
        wait_events(sent);
        cache.hot_reload();
        main.hot_reload();
        let after = rid_of(mixed.last_reload_id());
        rep.checks += 1;
        if (after != before) != expect_mix {
            rep.mismatch(json!({"what": if expect_mix { "an edit of an entry the load read itself did not reload the asset" }
                else { "an edit of an entry read on a helper thread / through another cache reloaded the asset" }, "entry": id}));
        }
        let leaf = rid_of(cache.load::<Leaf<0>>(id).unwrap().last_reload_id());
        if leaf == 0 {
            rep.mismatch(json!({"what":"the asset owning the edited file was not reloaded","entry":id}));
        }
    }
    let _ = ids;
    // no_record asked through another cache (cold, hot, AnyCache of the cold one)
    {
        let cold_src = MemSource::new(false);
        let cold: &'static AssetCache<MemSource> = Box::leak(Box::new(AssetCache::without_hot_reloading(cold_src)));
        let _ = COLD.set(cold);
        for id in ["nr", "nr2", "nr3"] {
            src.put(id, "x", b"v1");
        }
        let via = main.load::<NoRecVia>("via").expect("load via");
        rep.cases += 1;
        for id in ["nr", "nr2", "nr3"] {
            let before = rid_of(via.last_reload_id());
            src.put(id, "x", b"v2");
            src.send(&[OwnedDirEntry::File(id.into(), "x".into())]);
            sent += 1;
            wait_events(sent);
            main.hot_reload();
            rep.checks += 1;
            if rid_of(via.last_reload_id()) != before {
                rep.mismatch(json!({"what":"an edit of an entry read inside no_record (asked through another cache) reloaded the asset","entry":id}));
            }
        }
        if trace::HAS_HOOKS {
            let mut last = None;
            trace::scan(|l| {
                if l["ev"] == "Graph" && l["key"]["id"] == "via" {
                    last = Some(l["deps"].clone());
                }
            });
            let mut got: Vec<String> = last.and_then(|d| d.as_array().cloned()).unwrap_or_default().iter()
                .map(|d| format!("{}:{}", d["k"].as_str().unwrap_or("?"), d["id"].as_str().unwrap_or("?"))).collect();
            got.sort();
            rep.checks += 1;
            if got != vec!["asset:m".to_string()] {
                rep.mismatch(json!({"what":"dependencies registered for an asset that reads inside no_record asked through another cache","got":got}));
            }
        }
    }
    // the registered dependency set of `mix`: exactly Asset(L0:m), Asset(L0:z)
    if trace::HAS_HOOKS {
        let mut last = None;
        trace::scan(|l| {
            if l["ev"] == "Graph" && l["key"]["id"] == "mix" {
                last = Some(l["deps"].clone());
            }
        });
        rep.checks += 1;
        let mut got: Vec<String> = last
            .and_then(|d| d.as_array().cloned())
            .unwrap_or_default()
            .iter()
            .map(|d| format!("{}:{}", d["k"].as_str().unwrap_or("?"), d["id"].as_str().unwrap_or("?")))
            .collect();
        got.sort();
        if got != vec!["asset:m".to_string(), "asset:z".to_string()] {
            rep.mismatch(json!({"what":"dependencies registered for an asset that also loads on a helper thread and through another cache","got":got}));
        }
    }
    rep.print();
}

// ---------------------------------------------------------------------------
// C13: value types of different size / alignment; type erasure
// ---------------------------------------------------------------------------
use std::sync::atomic::{AtomicI64, Ordering as AO};

macro_rules! counted {
    ($name:ident, $ctr:ident, $($body:tt)*) => {
        static $ctr: (AtomicI64, AtomicI64) = (AtomicI64::new(0), AtomicI64::new(0));
        $($body)*
        impl Drop for $name {
            fn drop(&mut self) {
                $ctr.1.fetch_add(1, AO::SeqCst);
            }
        }
    };
}
counted!(Zst, C_ZST, pub struct Zst;);
counted!(OneByte, C_ONE, pub struct OneByte(pub u8););
counted!(Heap, C_HEAP, pub struct Heap(pub Vec<u64>, pub String););
counted!(Align64, C_ALIGN, #[repr(align(64))] pub struct Align64(pub [u8; 96]););

pub trait Probe: Sized + Send + Sync + 'static {
    fn make(n: u8) -> Self;
    fn check(&self, n: u8) -> bool;
    fn ctr() -> &'static (AtomicI64, AtomicI64);
    const NAME: &'static str;
}
impl Probe for Zst {
    fn make(_n: u8) -> Self { C_ZST.0.fetch_add(1, AO::SeqCst); Zst }
    fn check(&self, _n: u8) -> bool { true }
    fn ctr() -> &'static (AtomicI64, AtomicI64) { &C_ZST }
    const NAME: &'static str = "zero-sized";
}
impl Probe for OneByte {
    fn make(n: u8) -> Self { C_ONE.0.fetch_add(1, AO::SeqCst); OneByte(n) }
    fn check(&self, n: u8) -> bool { self.0 == n }
    fn ctr() -> &'static (AtomicI64, AtomicI64) { &C_ONE }
    const NAME: &'static str = "one byte";
}
impl Probe for Heap {
    fn make(n: u8) -> Self { C_HEAP.0.fetch_add(1, AO::SeqCst); Heap(vec![n as u64; 37], format!("heap-{n}")) }
    fn check(&self, n: u8) -> bool { self.0.len() == 37 && self.0.iter().all(|x| *x == n as u64) && self.1 == format!("heap-{n}") }
    fn ctr() -> &'static (AtomicI64, AtomicI64) { &C_HEAP }
    const NAME: &'static str = "heap-owning";
}
impl Probe for Align64 {
    fn make(n: u8) -> Self { C_ALIGN.0.fetch_add(1, AO::SeqCst); Align64([n; 96]) }
    fn check(&self, n: u8) -> bool { self.0.iter().all(|x| *x == n) && (self as *const _ as usize) % 64 == 0 }
    fn ctr() -> &'static (AtomicI64, AtomicI64) { &C_ALIGN }
    const NAME: &'static str = "over-aligned (64)";
}

macro_rules! probe_asset {
    ($t:ty) => {
        impl assets_manager::Asset for $t {
            const EXTENSION: &'static str = "x";
            type Loader = ProbeLoader;
        }
    };
}
pub struct ProbeLoader;
impl<T: Probe> assets_manager::loader::Loader<T> for ProbeLoader {
    fn load(content: std::borrow::Cow<[u8]>, _ext: &str) -> Result<T, BoxedError> {
        let n = crate::assets::parse_leaf(&content).ok_or("bad")? as u8;
        Ok(T::make(n))
    }
}
probe_asset!(Zst);
probe_asset!(OneByte);
probe_asset!(Heap);
probe_asset!(Align64);

fn probe_type<T: Probe + assets_manager::Asset>(rep: &mut Report) {
    let ctr = T::ctr();
    let (c0, d0) = (ctr.0.load(AO::SeqCst), ctr.1.load(AO::SeqCst));
    let live = || (ctr.0.load(AO::SeqCst) - c0) - (ctr.1.load(AO::SeqCst) - d0);
    let mut bad = |what: &str| rep.mismatch(json!({"what": what, "type": T::NAME}));
    let src = MemSource::new(true);
    src.put("a", "x", b"v1");
    src.put("b", "x", b"v2");
    {
        let mut cache = AssetCache::with_source(src.clone());
        // load, reload (replacement), take, remove, get_or_insert (loser), clear, drop
        let h = cache.load::<T>("a").unwrap();
        if !h.read().check(1) { bad("loaded value is wrong"); }
        if live() != 1 { bad("live values after one load != 1"); }
        for round in 2..5u8 {
            src.put("a", "x", format!("v{round}").as_bytes());
            src.send(&[OwnedDirEntry::File("a".into(), "x".into())]);
            let before = rid_of(h.last_reload_id());
            let t0 = std::time::Instant::now();
            while rid_of(h.last_reload_id()) == before && t0.elapsed() < std::time::Duration::from_secs(5) {
                cache.hot_reload();
            }
            if !h.read().check(round) { bad("value after a reload is wrong (byte swap of the erased value)"); }
            if live() != 1 { bad("a reload leaked or double-dropped the replaced value"); }
        }
        let _ = cache.load::<T>("b").unwrap();
        if live() != 2 { bad("live values after two loads != 2"); }
        let taken = cache.take::<T>("b");
        match &taken {
            Some(v) if v.check(2) => {}
            _ => bad("take did not hand back the stored value"),
        }
        if live() != 2 { bad("take dropped (or duplicated) the value it returned"); }
        drop(taken);
        if live() != 1 { bad("the taken value was not dropped by its new owner exactly once"); }
        let loser = T::make(9);
        let kept = cache.get_or_insert::<T>("a", loser);
        if !kept.read().check(4) { bad("get_or_insert overwrote a present value"); }
        if live() != 1 { bad("the losing get_or_insert argument was not dropped exactly once"); }
        let o = cache.load_owned::<T>("b").unwrap();
        if live() != 2 || !o.check(2) { bad("load_owned did not pass ownership of exactly one value"); }
        drop(o);
        if !cache.remove::<T>("a") || live() != 0 { bad("remove did not drop exactly the stored value"); }
        let _ = cache.load::<T>("a");
        let _ = cache.load::<T>("b");
        cache.clear();
        if live() != 0 { bad("clear did not drop every stored value exactly once"); }
        let _ = cache.load::<T>("a");
        let _ = cache.get_or_insert::<T>("ins", T::make(7));
    }
    if live() != 0 { bad("dropping the cache did not drop every stored value exactly once"); }
    rep.cases += 1;
}

/// `amv c13-types`
/// The same ownership laws for a value kept in a `OnceInitCell<U, Heap>`: the loaded `U` (the seed) and the
/// value built from it are each dropped exactly once, however the entry leaves the cache, initialised or not.
fn probe_cell<U: Probe + assets_manager::Asset>(rep: &mut Report) {
    use assets_manager::OnceInitCell;
    let (cu, ch) = (U::ctr(), Heap::ctr());
    let base = |c: &'static (AtomicI64, AtomicI64)| (c.0.load(AO::SeqCst), c.1.load(AO::SeqCst));
    let (u0, h0) = (base(cu), base(ch));
    let live_u = || (cu.0.load(AO::SeqCst) - u0.0) - (cu.1.load(AO::SeqCst) - u0.1);
    let live_h = || (ch.0.load(AO::SeqCst) - h0.0) - (ch.1.load(AO::SeqCst) - h0.1);
    let made_u = || cu.0.load(AO::SeqCst) - u0.0;
    let dropped_u = || cu.1.load(AO::SeqCst) - u0.1;
    let mut bad = |what: &str| rep.mismatch(json!({"what": what, "type": format!("OnceInitCell<{}, heap-owning>", U::NAME)}));
    let src = MemSource::new(false);
    for id in ["a", "b", "c", "d"] {
        src.put(id, "x", b"v1");
    }
    {
        let mut cache = AssetCache::with_source(src.clone());
        // a: initialised then removed; b: initialised then cleared; c: never initialised; d: initialised, dropped with the cache
        for id in ["a", "b", "d"] {
            let h = cache.load::<OnceInitCell<U, Heap>>(id).unwrap();
            let g = h.read();
            let v = g.get_or_init(|_u: &mut U| Heap::make(5));
            if !v.check(5) { bad("the initialised value is wrong"); }
        }
        let _ = cache.load::<OnceInitCell<U, Heap>>("c").unwrap();
        // 4 seeds made; the 3 used ones are gone (dropped once each), 1 still alive; 3 values alive
        if made_u() != 4 { bad("not one seed per load"); }
        if dropped_u() != 3 || live_u() != 1 { bad("an initialised cell did not drop its seed exactly once"); }
        if live_h() != 3 { bad("live values after three initialisations != 3"); }
        if !cache.remove::<OnceInitCell<U, Heap>>("a") || live_h() != 2 { bad("remove did not drop exactly the stored value"); }
        let taken = cache.take::<OnceInitCell<U, Heap>>("b");
        if taken.is_none() || live_h() != 2 { bad("take dropped or duplicated the value"); }
        drop(taken);
        if live_h() != 1 { bad("the taken cell did not drop its value exactly once"); }
    }
    if live_h() != 0 || live_u() != 0 || dropped_u() != 4 {
        bad("after the cache is gone not every seed and value was dropped exactly once");
    }
    rep.cases += 1;
}

/// A loaded value without drop glue (the other code path of the cell): the value built from it is still
/// dropped exactly once, however the entry leaves the cache, also when a reload replaces the cell.
#[derive(Clone, Copy)]
pub struct PlainSeed(pub u8);
pub struct PlainLoader;
impl assets_manager::loader::Loader<PlainSeed> for PlainLoader {
    fn load(content: std::borrow::Cow<[u8]>, _ext: &str) -> Result<PlainSeed, BoxedError> {
        Ok(PlainSeed(crate::assets::parse_leaf(&content).ok_or("bad")? as u8))
    }
}
impl assets_manager::Asset for PlainSeed {
    const EXTENSION: &'static str = "x";
    type Loader = PlainLoader;
}

/// The value type has no drop glue (`u32`) while the loaded seed has: a cell that leaves the cache, initialised or
/// not, still drops its seed exactly once.
fn probe_cell_plain_value<U: Probe + assets_manager::Asset>(rep: &mut Report) {
    use assets_manager::OnceInitCell;
    let cu = U::ctr();
    let u0 = (cu.0.load(AO::SeqCst), cu.1.load(AO::SeqCst));
    let made = || cu.0.load(AO::SeqCst) - u0.0;
    let dropped = || cu.1.load(AO::SeqCst) - u0.1;
    let mut bad = |what: &str| rep.mismatch(json!({"what": what, "type": format!("OnceInitCell<{}, u32>", U::NAME)}));
    let src = MemSource::new(false);
    for id in ["a", "b", "c", "d", "e"] {
        src.put(id, "x", b"v1");
    }
    {
        let mut cache = AssetCache::with_source(src.clone());
        for id in ["a", "b", "c", "d", "e"] {
            let _ = cache.load::<OnceInitCell<U, u32>>(id).unwrap();
        }
        // a: removed uninitialised; b: initialised then removed; c: taken uninitialised; d: cleared; e: dropped with the cache
        if !cache.remove::<OnceInitCell<U, u32>>("a") || dropped() != 1 { bad("removing an uninitialised cell did not drop its seed exactly once"); }
        {
            let h = cache.load::<OnceInitCell<U, u32>>("b").unwrap();
            let _ = h.read().get_or_init(|_u: &mut U| 7u32);
        }
        if dropped() != 2 { bad("initialising a cell did not drop its seed exactly once"); }
        let _ = cache.remove::<OnceInitCell<U, u32>>("b");
        if dropped() != 2 { bad("removing an initialised cell dropped a seed again"); }
        let t = cache.take::<OnceInitCell<U, u32>>("c");
        if dropped() != 2 { bad("take dropped the seed of the cell it returned"); }
        drop(t);
        if dropped() != 3 { bad("a taken uninitialised cell did not drop its seed exactly once"); }
        let o = cache.load_owned::<OnceInitCell<U, u32>>("c").unwrap();
        drop(o);
        if made() != 6 || dropped() != 4 { bad("an owned uninitialised cell did not drop its seed exactly once"); }
        cache.clear();
        if dropped() != 6 { bad("clear did not drop the seeds of the uninitialised cells"); }
        let _ = cache.load::<OnceInitCell<U, u32>>("e").unwrap();
    }
    if made() != 7 || dropped() != 7 { bad("after the cache is gone not every seed was dropped exactly once"); }
    rep.cases += 1;
}

fn probe_cell_plain(rep: &mut Report) {
    use assets_manager::OnceInitCell;
    let ch = Heap::ctr();
    let h0 = (ch.0.load(AO::SeqCst), ch.1.load(AO::SeqCst));
    let live_h = || (ch.0.load(AO::SeqCst) - h0.0) - (ch.1.load(AO::SeqCst) - h0.1);
    let mut bad = |what: &str| rep.mismatch(json!({"what": what, "type": "OnceInitCell<plain data, heap-owning>"}));
    let src = MemSource::new(true);
    for id in ["a", "b", "c", "d", "e"] {
        src.put(id, "x", b"v1");
    }
    {
        let mut cache = AssetCache::with_source(src.clone());
        for id in ["a", "b", "c", "d", "e"] {
            let h = cache.load::<OnceInitCell<PlainSeed, Heap>>(id).unwrap();
            let g = h.read();
            if !g.get_or_init(|s: &mut PlainSeed| Heap::make(s.0 + 4)).check(5) { bad("the initialised value is wrong"); }
        }
        if live_h() != 5 { bad("live values after five initialisations != 5"); }
        if !cache.remove::<OnceInitCell<PlainSeed, Heap>>("a") || live_h() != 4 { bad("remove did not drop exactly the stored value"); }
        let taken = cache.take::<OnceInitCell<PlainSeed, Heap>>("b");
        if taken.is_none() || live_h() != 4 { bad("take dropped or duplicated the value"); }
        drop(taken);
        if live_h() != 3 { bad("the taken cell did not drop its value exactly once"); }
        let owned = cache.load_owned::<OnceInitCell<PlainSeed, Heap>>("c").unwrap();
        let _ = owned.get_or_init(|_s: &mut PlainSeed| Heap::make(9));
        if live_h() != 4 { bad("load_owned + init: live values != 4"); }
        drop(owned);
        if live_h() != 3 { bad("the owned cell did not drop its value exactly once"); }
        // a reload replaces the initialised cell of `e` by a fresh one: the old value goes exactly once
        let h = cache.load::<OnceInitCell<PlainSeed, Heap>>("e").unwrap();
        src.put("e", "x", b"v2");
        src.send(&[OwnedDirEntry::File("e".into(), "x".into())]);
        let before = rid_of(h.last_reload_id());
        let t0 = std::time::Instant::now();
        while rid_of(h.last_reload_id()) == before && t0.elapsed() < std::time::Duration::from_secs(5) {
            cache.hot_reload();
        }
        if rid_of(h.last_reload_id()) == before { bad("the cell was not reloaded"); }
        if live_h() != 2 { bad("a reload of an initialised cell leaked or double-dropped its value"); }
        cache.clear();
        if live_h() != 0 { bad("clear did not drop every stored value exactly once"); }
        let h = cache.load::<OnceInitCell<PlainSeed, Heap>>("d").unwrap();
        let _ = h.read().get_or_init(|_s: &mut PlainSeed| Heap::make(1));
    }
    if live_h() != 0 { bad("after the cache is gone not every value was dropped exactly once"); }
    rep.cases += 1;
}

/// A read guard (plain, mapped, or of the untyped handle) pins the value whatever its layout: a reload that is
/// notified and asked for while the guard lives neither drops the old value nor moves the reload id before the
/// guard is released, and replaces it exactly once afterwards.  One-sided: a slow machine can only delay the reload.
fn probe_guard_pins<T: Probe + assets_manager::Asset>(rep: &mut Report) {
    let ctr = T::ctr();
    let src = MemSource::new(true);
    src.st.lock().unwrap().trace_reads = false;
    src.put("a", "x", b"v1");
    let cache: &'static AssetCache<MemSource> = Box::leak(Box::new(AssetCache::with_source(src.clone())));
    let h = cache.load::<T>("a").unwrap();
    for (round, kind) in ["read", "mapped", "untyped"].iter().enumerate() {
        rep.checks += 1;
        let drops0 = ctr.1.load(AO::SeqCst);
        let rid0 = rid_of(h.last_reload_id());
        let returned = std::sync::Arc::new(std::sync::atomic::AtomicBool::new(false));
        let (during_drops, during_rid, during_returned);
        let t;
        {
            let g_plain;
            let g_mapped;
            let g_untyped;
            match *kind {
                "read" => { g_plain = Some(h.read()); g_mapped = None; g_untyped = None; }
                "mapped" => { g_plain = None; g_mapped = Some(assets_manager::AssetReadGuard::map(h.read(), |v| v)); g_untyped = None; }
                _ => { g_plain = None; g_mapped = None; g_untyped = Some(h.as_untyped().read()); }
            }
            src.put("a", "x", format!("v{}", round + 2).as_bytes());
            src.send(&[OwnedDirEntry::File("a".into(), "x".into())]);
            let r2 = returned.clone();
            t = std::thread::spawn(move || {
                // several calls: the event may be dequeued after the first request
                for _ in 0..3 {
                    cache.hot_reload();
                    std::thread::sleep(std::time::Duration::from_millis(20));
                }
                r2.store(true, AO::SeqCst);
            });
            std::thread::sleep(std::time::Duration::from_millis(400));
            during_drops = ctr.1.load(AO::SeqCst) - drops0;
            during_rid = rid_of(h.last_reload_id());
            during_returned = returned.load(AO::SeqCst);
            drop((g_plain, g_mapped, g_untyped));
        }
        let _ = t.join();
        let t0 = std::time::Instant::now();
        while rid_of(h.last_reload_id()) == rid0 && t0.elapsed() < std::time::Duration::from_secs(20) {
            cache.hot_reload();
        }
        let after_drops = ctr.1.load(AO::SeqCst) - drops0;
        if during_drops != 0 || during_rid != rid0 {
            rep.mismatch(json!({"what":"a reload replaced (dropped) the value or moved the reload id while a read guard could still reach the value",
                "type":T::NAME,"guard":kind,"values_dropped_while_guarded":during_drops,"reload_id_moved":during_rid != rid0,"hot_reload_returned":during_returned}));
        } else if after_drops != 1 || rid_of(h.last_reload_id()) != rid0 + 1 || !h.read().check(round as u8 + 2) {
            rep.mismatch(json!({"what":"after the guard was released the reload did not replace the value exactly once",
                "type":T::NAME,"guard":kind,"values_dropped":after_drops,"reload_id":rid_of(h.last_reload_id()),"was":rid0}));
        }
    }
    rep.cases += 1;
}

pub fn c13_types(_args: &[String]) {
    let mut rep = Report::default();
    probe_guard_pins::<Zst>(&mut rep);
    probe_guard_pins::<OneByte>(&mut rep);
    probe_guard_pins::<Heap>(&mut rep);
    probe_guard_pins::<Align64>(&mut rep);
    probe_type::<Zst>(&mut rep);
    probe_type::<OneByte>(&mut rep);
    probe_type::<Heap>(&mut rep);
    probe_type::<Align64>(&mut rep);
    probe_cell::<Zst>(&mut rep);
    probe_cell::<OneByte>(&mut rep);
    probe_cell::<Align64>(&mut rep);
    probe_cell_plain(&mut rep);
    probe_cell_plain_value::<Zst>(&mut rep);
    probe_cell_plain_value::<OneByte>(&mut rep);
    probe_cell_plain_value::<Heap>(&mut rep);
    // type erasure: (stored type, requested type) pairs
    let src = MemSource::new(false);
    src.put("a", "x", b"v1");
    let cache = AssetCache::with_source(src);
    macro_rules! pairs {
        ($stored:ty; $($req:ty),*) => {{
            let h = cache.load::<$stored>("a").unwrap().as_untyped();
            $(
                rep.checks += 1;
                let same = std::any::TypeId::of::<$stored>() == std::any::TypeId::of::<$req>();
                if h.is::<$req>() != same || h.downcast_ref::<$req>().is_some() != same {
                    rep.mismatch(json!({"what":"an untyped handle can be viewed as a type it was not created with",
                        "stored":stringify!($stored),"requested":stringify!($req)}));
                }
                if h.read().downcast::<$req>().is_ok() != same {
                    rep.mismatch(json!({"what":"an untyped read guard downcasts to the wrong type",
                        "stored":stringify!($stored),"requested":stringify!($req)}));
                }
            )*
        }};
    }
    pairs!(Zst; Zst, OneByte, Heap, Align64, Leaf<0>);
    pairs!(OneByte; Zst, OneByte, Heap, Align64, Leaf<0>);
    pairs!(Heap; Zst, OneByte, Heap, Align64, Leaf<0>);
    pairs!(Align64; Zst, OneByte, Heap, Align64, Leaf<0>);
    pairs!(Leaf<0>; Zst, OneByte, Heap, Align64, Leaf<0>, Leaf<1>);
    // same id, different types never alias
    rep.checks += 1;
    if cache.get_cached::<Leaf<1>>("a").is_some() || cache.contains::<Leaf<2>>("a") {
        rep.mismatch(json!({"what":"an entry is visible under another type with the same id"}));
    }
    rep.print();
}

/// `amv c01-fronts <seed>`: the same handle through every front-end, before and after growth.
pub fn c01_fronts(_args: &[String]) {
    let mut rep = Report::default();
    let src = MemSource::new(false);
    src.st.lock().unwrap().trace_reads = false;
    src.put("a", "x", b"v1");
    macro_rules! body {
        ($cache:expr, $name:expr) => {{
            let cache = $cache;
            rep.cases += 1;
            let h1 = cache.load::<Leaf<0>>("a").unwrap();
            let h2 = cache.as_any_cache().load::<Leaf<0>>("a").unwrap();
            let h3 = cache.get_cached::<Leaf<0>>("a").unwrap();
            let h4 = cache.as_any_cache().get_or_insert::<Leaf<0>>("a", Leaf::from_data(json!({"t":"stor","c":1})).unwrap());
            let tok = h1.read().0.tok;
            for i in 0..5000 {
                let _ = cache.get_or_insert::<Stor>(&format!("n{i}"), Stor::from_data(json!({"t":"stor","c":i})).unwrap());
            }
            let h5 = cache.load::<Leaf<0>>("a").unwrap();
            rep.checks += 1;
            if ![h2, h3, h4, h5].iter().all(|h| std::ptr::eq(*h, h1)) {
                rep.mismatch(json!({"what":"front-ends / later calls return different handles for one key","front":$name}));
            }
            if h1.read().0.tok != tok || !cache.contains::<Leaf<0>>("a") || h1.id().as_str() != "a" {
                rep.mismatch(json!({"what":"a long-lived handle no longer reads its value after 5000 unrelated insertions","front":$name}));
            }
        }};
    }
    body!(AssetCache::without_hot_reloading(src.clone()), "AssetCache");
    body!(LocalAssetCache::with_source(src.clone()), "LocalAssetCache");
    let hot = MemSource::new(true);
    hot.put("a", "x", b"v1");
    body!(AssetCache::with_source(hot), "AssetCache+reloader");
    long_ids(&mut rep);
    rep.print();
}

// ---------------------------------------------------------------------------
// C02 / C01: many types under one id (key = (type, id), whatever the hash seed)
// ---------------------------------------------------------------------------
pub struct Many<const I: usize>(pub usize);
impl<const I: usize> assets_manager::Storable for Many<I> {}

macro_rules! many {
    ($mac:ident, $($args:tt)*) => {
        $mac!($($args)*; 0 1 2 3 4 5 6 7 8 9 10 11 12 13 14 15 16 17 18 19 20 21 22 23 24 25 26 27 28 29 30 31
              32 33 34 35 36 37 38 39 40 41 42 43 44 45 46 47 48 49 50 51 52 53 54 55 56 57 58 59 60 61 62 63);
    };
}

/// `amv c02-types <seed> <caches>`
pub fn c02_types(args: &[String]) {
    let caches: usize = args.get(1).and_then(|s| s.parse().ok()).unwrap_or(20);
    let mut rep = Report::default();
    let src = MemSource::new(false);
    std::panic::set_hook(Box::new(|_| {}));
    for round in 0..caches {
        for local in [false, true] {
            rep.cases += 1;
            let mut bad: Vec<String> = Vec::new();
            macro_rules! phase {
                ($cache:ident; $($i:literal)*) => {{
                    // 1. store the even types under the same id
                    $( if $i % 2 == 0 { let _ = $cache.get_or_insert::<Many<$i>>("k", Many($i)); } )*
                    // 2. every type sees exactly its own entry
                    $(
                        rep.checks += 1;
                        let want = $i % 2 == 0;
                        let c = $cache.contains::<Many<$i>>("k");
                        let g = std::panic::catch_unwind(std::panic::AssertUnwindSafe(|| $cache.get_cached::<Many<$i>>("k").map(|h| h.read().0)));
                        match g {
                            Ok(v) if c == want && v == if want { Some($i) } else { None } => {}
                            Ok(v) => bad.push(format!("type #{}: contains={c}, get_cached={v:?}, stored={want}", $i)),
                            Err(_) => bad.push(format!("type #{}: get_cached panicked (stored={want})", $i)),
                        }
                    )*
                    // 3. removing an absent key removes nothing; removing a present one removes only it
                    $( if $i % 4 == 1 { if $cache.remove::<Many<$i>>("k") { bad.push(format!("remove of absent type #{} reported true", $i)); } } )*
                    $( if $i % 4 == 0 { if !$cache.remove::<Many<$i>>("k") { bad.push(format!("remove of present type #{} reported false", $i)); } } )*
                    $(
                        let want = $i % 4 == 2;
                        if $cache.contains::<Many<$i>>("k") != want {
                            bad.push(format!("after removals: type #{} present={}, expected {want}", $i, !want));
                        }
                        if want {
                            let t = std::panic::catch_unwind(std::panic::AssertUnwindSafe(|| $cache.take::<Many<$i>>("k").map(|v| v.0)));
                            if t.ok().flatten() != Some($i) {
                                bad.push(format!("take of type #{} did not hand back its own value", $i));
                            }
                        }
                    )*
                }};
            }
            if local {
                let mut cache = LocalAssetCache::with_source(src.clone());
                many!(phase, cache);
            } else {
                let mut cache = AssetCache::without_hot_reloading(src.clone());
                many!(phase, cache);
            }
            if !bad.is_empty() {
                rep.mismatch(json!({"what":"entries with the same id and different types affect each other","front": if local {"LocalAssetCache"} else {"AssetCache"},
                    "cache_instance":round,"first_anomalies":bad.iter().take(4).collect::<Vec<_>>(),"anomalies":bad.len()}));
            }
        }
    }
    let _ = std::panic::take_hook();
    long_ids(&mut rep);
    borrowed_ids(&mut rep, caches);
    rep.print();
}

/// Look-ups made with the id of an existing entry AS STORED (same allocation: `handle.id()`), for the other
/// types: identity of the id's bytes must not make two keys equal.
fn borrowed_ids(rep: &mut Report, scale: usize) {
    let src = MemSource::new(false);
    std::panic::set_hook(Box::new(|_| {}));
    let mut hits: Vec<String> = Vec::new();
    for round in 0..(80 * scale.max(1)) {
        rep.cases += 1;
        let cache = AssetCache::without_hot_reloading(src.clone());
        let id = cache.get_or_insert::<Many<0>>("borrowed-key", Many(0)).id().clone();
        macro_rules! probe {
            ($cache:ident; $($i:literal)*) => {{
                $(
                    if $i != 0 {
                        rep.checks += 1;
                        let r = std::panic::catch_unwind(std::panic::AssertUnwindSafe(|| {
                            ($cache.contains::<Many<$i>>(&id), $cache.get_cached::<Many<$i>>(&id).is_some())
                        }));
                        match r {
                            Ok((false, false)) => {}
                            Ok(x) => hits.push(format!("cache {round}: type #{} sees the entry of type #0: contains / get_cached = {x:?}", $i)),
                            Err(_) => hits.push(format!("cache {round}: looking type #{} up with the stored id panicked", $i)),
                        }
                    }
                )*
            }};
        }
        many!(probe, cache);
        if hits.len() > 5 {
            break;
        }
    }
    let _ = std::panic::take_hook();
    if !hits.is_empty() {
        rep.mismatch(json!({"what":"a look-up made with the stored id of an entry finds it under another type","first_anomalies":hits.iter().take(4).collect::<Vec<_>>(),"anomalies":hits.len()}));
    }
}

/// The map laws for ids of every length class (short, around the sizes where a hash or a
/// small-string representation could switch strategy, very long), on the three front-ends.
pub fn long_ids(rep: &mut Report) {
    let lens: Vec<usize> = (0..70).chain([100, 127, 128, 129, 130, 200, 255, 256, 257, 300, 511, 512, 513, 1023, 1024, 1025, 4096, 4097, 10_000]).collect();
    for front in ["AssetCache", "LocalAssetCache", "AnyCache"] {
        rep.cases += 1;
        let src = MemSource::new(false);
        src.st.lock().unwrap().trace_reads = false;
        let mut bad: Vec<String> = Vec::new();
        macro_rules! body {
            ($c:ident, $removal:expr) => {{
                for (k, len) in lens.iter().enumerate() {
                    // one long component, and dotted components
                    for shape in 0..2 {
                        let id: String = if shape == 0 { "x".repeat(*len) } else { (0..*len).map(|i| if i % 9 == 8 { '.' } else { 'y' }).collect() };
                        if shape == 1 && (id.ends_with('.') || *len < 9) {
                            continue;
                        }
                        rep.checks += 1;
                        src.put(&id, "x", format!("v{k}").as_bytes());
                        let reads0 = src.st.lock().unwrap().nread;
                        let h1 = match $c.load::<Leaf<0>>(&id) {
                            Ok(h) => h as *const _ as usize,
                            Err(e) => {
                                bad.push(format!("len {len}: load failed: {e}"));
                                continue;
                            }
                        };
                        let present = $c.contains::<Leaf<0>>(&id);
                        let cached = $c.get_cached::<Leaf<0>>(&id).map(|h| h as *const _ as usize);
                        let h2 = $c.load::<Leaf<0>>(&id).map(|h| h as *const _ as usize).unwrap_or(0);
                        let reads1 = src.st.lock().unwrap().nread;
                        if !present || cached != Some(h1) || h2 != h1 {
                            bad.push(format!("len {len}: after a load contains={present}, get_cached gives the handle={}, a second load gives the handle={}", cached == Some(h1), h2 == h1));
                        }
                        if reads1 - reads0 != 1 {
                            bad.push(format!("len {len}: two loads read the source {} times", reads1 - reads0));
                        }
                        // a neighbour id is a different key
                        if $c.contains::<Leaf<0>>(&format!("{id}z")) {
                            bad.push(format!("len {len}: the id with one more character is reported present"));
                        }
                        if $removal {
                            long_ids_removal!($c, id, k, len, bad);
                        }
                    }
                }
            }};
        }
        macro_rules! long_ids_removal {
            ($c:ident, $id:ident, $k:ident, $len:ident, $bad:ident) => {{
                if $k % 2 == 0 {
                    let removed = $c.remove::<Leaf<0>>(&$id);
                    if !removed || $c.contains::<Leaf<0>>(&$id) {
                        $bad.push(format!("len {}: remove reported {removed}, still present={}", $len, $c.contains::<Leaf<0>>(&$id)));
                    }
                } else {
                    let taken = $c.take::<Leaf<0>>(&$id).is_some();
                    if !taken || $c.contains::<Leaf<0>>(&$id) {
                        $bad.push(format!("len {}: take handed back a value={taken}, still present={}", $len, $c.contains::<Leaf<0>>(&$id)));
                    }
                }
            }};
        }
        match front {
            "AssetCache" => {
                let mut cache = AssetCache::without_hot_reloading(src.clone());
                body!(cache, true);
            }
            "LocalAssetCache" => {
                let mut cache = LocalAssetCache::with_source(src.clone());
                body!(cache, true);
            }
            _ => {
                let cache = AssetCache::with_source(src.clone());
                let any = cache.as_any_cache();
                macro_rules! long_ids_removal {
                    ($c:ident, $id:ident, $k:ident, $len:ident, $bad:ident) => {{}};
                }
                body!(any, false);
            }
        }
        if !bad.is_empty() {
            rep.mismatch(json!({"what":"the cache is not a faithful map for ids of every length","front":front,
                "first_anomalies":bad.iter().take(4).collect::<Vec<_>>(),"anomalies":bad.len()}));
        }
    }
}

// ---------------------------------------------------------------------------
// C03 on the real file system: the statuses of LoadFold.tla concretised with real entries
// (absent, symlink loop = unreadable with an I/O error other than not-found, directory in place
// of the file, undecodable, valid) for the two-extension leaf L1 = [x, y]
// ---------------------------------------------------------------------------
/// `amv c03-fs <workdir>`
pub fn c03_fs(args: &[String]) {
    use crate::nodes::top_err_json;
    let mut rep = Report::default();
    let statuses = ["absent", "loop", "dir", "bad", "ok"];
    for sx in statuses {
        for sy in statuses {
            rep.cases += 1;
            let root = std::path::PathBuf::from(format!("{}/c03fs-{}-{sx}-{sy}", args[0], std::process::id()));
            let _ = std::fs::remove_dir_all(&root);
            std::fs::create_dir_all(&root).unwrap();
            for (ext, st, n) in [("x", sx, 1), ("y", sy, 2)] {
                let p = root.join(format!("a.{ext}"));
                match st {
                    "loop" => std::os::unix::fs::symlink(format!("a.{ext}"), &p).unwrap(),
                    "dir" => std::fs::create_dir(&p).unwrap(),
                    "bad" => std::fs::write(&p, b"bad").unwrap(),
                    "ok" => std::fs::write(&p, format!("v{n}")).unwrap(),
                    _ => {}
                }
            }
            // the law (LoadFold.tla): first decodable extension wins; otherwise conversion > io(other) > io(not found)
            let rank = |s: &str| match s { "bad" => 3, "loop" => 2, _ => 1 };
            let want = if sx == "ok" { "ok:1".to_string() } else if sy == "ok" { "ok:2".to_string() } else {
                let r = rank(sx).max(rank(sy));
                match r { 3 => "conv".to_string(), 2 => "io:other".to_string(), _ => "io:notfound".to_string() }
            };
            let cache = AssetCache::without_hot_reloading(assets_manager::source::FileSystem::new(&root).unwrap());
            let got = match cache.load::<Leaf<1>>("a") {
                Ok(h) => format!("ok:{}", h.read().0.data["c"]),
                Err(e) => {
                    let j = top_err_json(&e);
                    let inner = &j["inner"];
                    match inner["e"].as_str() {
                        Some("conv") => "conv".to_string(),
                        Some("io") => format!("io:{}", if inner["kind"] == "notfound" { "notfound" } else { "other" }),
                        other => format!("{other:?}"),
                    }
                }
            };
            rep.checks += 1;
            if got != want {
                rep.mismatch(json!({"what":"load on the real file system does not follow the extension / error-precedence law",
                    "x":sx,"y":sy,"got":got,"want":want}));
            }
            if got.starts_with("ok") != cache.contains::<Leaf<1>>("a") {
                rep.mismatch(json!({"what":"a failed load cached something (or a successful one did not)","x":sx,"y":sy}));
            }
            let _ = std::fs::remove_dir_all(&root);
        }
    }
    rep.print();
}

// ---------------------------------------------------------------------------
// C07: values of every size class are replaced whole
// ---------------------------------------------------------------------------
/// A value stored inline, `N` elements of `T`: sizes that are not a multiple of the word size and
/// alignments below it exercise the tail of whatever copies the bytes of a reloaded value.
#[derive(Clone, Copy)]
pub struct Pod<T: Copy + 'static, const N: usize>(pub [T; N]);
pub struct PodLoader;
macro_rules! pod_asset {
    ($t:ty) => {
        impl<const N: usize> assets_manager::loader::Loader<Pod<$t, N>> for PodLoader {
            fn load(content: std::borrow::Cow<[u8]>, _ext: &str) -> Result<Pod<$t, N>, BoxedError> {
                let n = crate::assets::parse_leaf(&content).ok_or("bad")?;
                // every element differs from its neighbours and from the same element of other versions
                let mut a = [0 as $t; N];
                for (i, x) in a.iter_mut().enumerate() {
                    *x = ((n as u64).wrapping_mul(31).wrapping_add(i as u64 * 7)) as $t;
                }
                Ok(Pod(a))
            }
        }
        impl<const N: usize> assets_manager::Asset for Pod<$t, N> {
            const EXTENSION: &'static str = "x";
            type Loader = PodLoader;
        }
    };
}
pod_asset!(u8);
pod_asset!(u16);
pod_asset!(u32);
pod_asset!(u64);

fn pod_case<T: Copy + PartialEq + std::fmt::Debug + Send + Sync + 'static, const N: usize>(rep: &mut Report, is_static: bool)
where
    Pod<T, N>: assets_manager::Asset,
    PodLoader: assets_manager::loader::Loader<Pod<T, N>>,
{
    use assets_manager::loader::Loader;
    rep.cases += 1;
    let src = MemSource::new(true);
    src.st.lock().unwrap().trace_reads = false;
    src.put("a", "x", b"v1");
    let cache: &'static AssetCache<MemSource> = Box::leak(Box::new(AssetCache::with_source(src.clone())));
    let h = cache.load::<Pod<T, N>>("a").unwrap();
    if is_static {
        cache.enhance_hot_reloading();
    }
    for v in 2..6i64 {
        let content = format!("v{v}");
        src.put("a", "x", content.as_bytes());
        src.send(&[OwnedDirEntry::File("a".into(), "x".into())]);
        let want: Pod<T, N> = PodLoader::load(std::borrow::Cow::Borrowed(content.as_bytes()), "x").unwrap();
        let t0 = std::time::Instant::now();
        let mut got = h.copied();
        while got.0[..] != want.0[..] && t0.elapsed() < std::time::Duration::from_secs(3) {
            if !is_static {
                cache.hot_reload();
            }
            std::thread::sleep(std::time::Duration::from_micros(200));
            got = h.copied();
            // a value that already left the old version must be the new one, whole
            let old: Pod<T, N> = PodLoader::load(std::borrow::Cow::Owned(format!("v{}", v - 1).into_bytes()), "x").unwrap();
            if got.0[..] != old.0[..] {
                break;
            }
        }
        rep.checks += 1;
        if got.0[..] != want.0[..] {
            let first_bad = (0..N).find(|i| got.0[*i] != want.0[*i]);
            rep.mismatch(json!({"what":"after a reload the cached value is not the new value, whole",
                "element_type":std::any::type_name::<T>(),"elements":N,"bytes":std::mem::size_of::<Pod<T, N>>(),"align":std::mem::align_of::<T>(),
                "version":v,"first_wrong_element":first_bad,"mode":if is_static {"static"} else {"local"}}));
            return;
        }
    }
}

/// A guard held across a reload pins the value and the reload id whatever the size of the value (also when the
/// value would fit a single store).
fn pod_guard_case<T: Copy + PartialEq + std::fmt::Debug + Send + Sync + 'static, const N: usize>(rep: &mut Report)
where
    Pod<T, N>: assets_manager::Asset,
    PodLoader: assets_manager::loader::Loader<Pod<T, N>>,
{
    rep.cases += 1;
    let src = MemSource::new(true);
    src.st.lock().unwrap().trace_reads = false;
    src.put("a", "x", b"v1");
    let cache: &'static AssetCache<MemSource> = Box::leak(Box::new(AssetCache::with_source(src.clone())));
    let h = cache.load::<Pod<T, N>>("a").unwrap();
    let ready = std::sync::Arc::new(std::sync::Barrier::new(2));
    let r2 = ready.clone();
    let reader = std::thread::spawn(move || {
        let g = h.read();
        let before = g.0;
        let rid = h.last_reload_id();
        r2.wait();
        // the writer needs the entry: it can only get it when this guard goes
        std::thread::sleep(std::time::Duration::from_millis(60));
        let moved = g.0[..] != before[..] || h.last_reload_id() != rid;
        drop(g);
        moved
    });
    ready.wait();
    src.put("a", "x", b"v2");
    src.send(&[OwnedDirEntry::File("a".into(), "x".into())]);
    let t0 = std::time::Instant::now();
    let first = h.copied();
    while h.copied().0[..] == first.0[..] && t0.elapsed() < std::time::Duration::from_secs(3) {
        cache.hot_reload();
        std::thread::sleep(std::time::Duration::from_micros(300));
    }
    let moved = reader.join().unwrap_or(true);
    rep.checks += 1;
    if moved {
        rep.mismatch(json!({"what":"the value or the reload id changed behind a live read guard","element_type":std::any::type_name::<T>(),"elements":N,
            "bytes":std::mem::size_of::<Pod<T, N>>()}));
    }
}

/// `amv c07-pods`: reload inline values of 1 .. 4100 bytes and alignments 1, 2, 4, 8.
pub fn c07_pods(_args: &[String]) {
    let mut rep = Report::default();
    macro_rules! sweep {
        ($t:ty; $($n:literal),*) => { $( pod_case::<$t, $n>(&mut rep, false); )* };
    }
    sweep!(u8; 1, 2, 3, 4, 5, 7, 8, 9, 11, 12, 15, 16, 17, 23, 24, 25, 31, 32, 33, 63, 64, 65, 100, 127, 129, 255, 257, 1000, 4095, 4096, 4097, 4100);
    sweep!(u16; 1, 2, 3, 4, 5, 7, 9, 15, 17, 33, 50, 2049);
    sweep!(u32; 1, 2, 3, 5, 7, 9, 17, 33, 1025);
    sweep!(u64; 1, 2, 3, 513);
    pod_guard_case::<u8, 1>(&mut rep);
    pod_guard_case::<u16, 1>(&mut rep);
    pod_guard_case::<u32, 1>(&mut rep);
    pod_guard_case::<u64, 1>(&mut rep);
    pod_guard_case::<u8, 8>(&mut rep);
    pod_guard_case::<u64, 2>(&mut rep);
    pod_guard_case::<u8, 100>(&mut rep);
    pod_case::<u8, 13>(&mut rep, true);
    pod_case::<u16, 5>(&mut rep, true);
    pod_case::<u32, 3>(&mut rep, true);
    rep.print();
}
