//! C03 concretisation: the exact bytes stored reach the crate's own loaders, through
//! every FileContent variant, and come back unchanged (or as the documented error).
use crate::mem::{Delivery, MemSource};
use crate::Report;
use assets_manager::loader::{BytesLoader, LoadFrom, ParseLoader, StringLoader};
use assets_manager::{Asset, AssetCache, LocalAssetCache, SharedBytes, SharedString};
use rand::{rngs::StdRng, Rng, SeedableRng};
use serde_json::json;

macro_rules! bytes_asset {
    ($name:ident, $inner:ty) => {
        pub struct $name(pub $inner);
        impl From<$inner> for $name {
            fn from(x: $inner) -> Self {
                $name(x)
            }
        }
        impl Asset for $name {
            const EXTENSION: &'static str = "bin";
            type Loader = LoadFrom<$inner, BytesLoader>;
        }
    };
}
bytes_asset!(BVec, Vec<u8>);
bytes_asset!(BBox, Box<[u8]>);
bytes_asset!(BShared, SharedBytes);

pub struct Num(pub i64);
impl From<i64> for Num {
    fn from(x: i64) -> Self {
        Num(x)
    }
}
impl Asset for Num {
    const EXTENSION: &'static str = "num";
    type Loader = LoadFrom<i64, ParseLoader>;
}
pub struct StrBox(pub Box<str>);
impl From<Box<str>> for StrBox {
    fn from(x: Box<str>) -> Self {
        StrBox(x)
    }
}
impl Asset for StrBox {
    const EXTENSION: &'static str = "txt";
    type Loader = LoadFrom<Box<str>, StringLoader>;
}

fn corpus(rng: &mut StdRng, n: usize) -> Vec<Vec<u8>> {
    let mut v: Vec<Vec<u8>> = vec![
        vec![],
        b" 42\n".to_vec(),
        b"42".to_vec(),
        b"\t-7  ".to_vec(),
        b"hello world".to_vec(),
        "h\u{e9}llo \u{1F600} w\u{f6}rld".as_bytes().to_vec(),
        vec![0xff, 0xfe, 0x00, 0x80],
        vec![0xe2, 0x82],          // truncated multi-byte
        vec![0xed, 0xa0, 0x80],    // surrogate
        vec![b'a'; 1 << 20],       // 1 MiB
        (0..=255u8).collect(),
    ];
    for _ in 0..n {
        let len = [0usize, 1, 2, 31, 32, 33, 255, 4096][rng.gen_range(0..8)];
        let ascii = rng.gen_bool(0.5);
        v.push((0..len).map(|_| if ascii { rng.gen_range(0x20..0x7f) } else { rng.gen() }).collect());
    }
    v
}

pub fn main(args: &[String]) {
    let seed: u64 = args[0].parse().unwrap();
    let n: usize = args[1].parse().unwrap();
    let mut rng = StdRng::seed_from_u64(seed);
    let mut rep = Report::default();
    let src = MemSource::new(false);
    src.st.lock().unwrap().trace_reads = false;
    for (i, bytes) in corpus(&mut rng, n).into_iter().enumerate() {
        for d in [Delivery::Slice, Delivery::Buffer, Delivery::Owned] {
            rep.cases += 1;
            src.set_delivery(d);
            let id = format!("f{i}");
            for ext in ["bin", "txt", "num"] {
                src.put(&id, ext, &bytes);
            }
            let cache = AssetCache::without_hot_reloading(src.clone());
            let local = LocalAssetCache::with_source(src.clone());
            let what = |w: &str| json!({"what": w, "len": bytes.len(), "delivery": format!("{d:?}"), "head": &bytes[..bytes.len().min(16)]});
            // bytes identity
            rep.checks += 3;
            match cache.load::<BVec>(&id) {
                Ok(h) if h.read().0 == bytes => {}
                _ => rep.mismatch(what("Vec<u8> differs from the stored bytes")),
            }
            match cache.load::<BBox>(&id) {
                Ok(h) if &*h.read().0 == &bytes[..] => {}
                _ => rep.mismatch(what("Box<[u8]> differs from the stored bytes")),
            }
            match local.load_owned::<BShared>(&id) {
                Ok(h) if &*h.0 == &bytes[..] => {}
                _ => rep.mismatch(what("SharedBytes differs from the stored bytes")),
            }
            // strings: valid UTF-8 -> equal (no trimming); invalid -> error, nothing cached
            let valid = std::str::from_utf8(&bytes).ok();
            rep.checks += 3;
            match (cache.load::<String>(&id), valid) {
                (Ok(h), Some(s)) if *h.read() == s => {}
                (Err(_), None) if !cache.contains::<String>(&id) => {}
                _ => rep.mismatch(what("String load disagrees with UTF-8 validity / content")),
            }
            match (cache.load::<SharedString>(&id), valid) {
                (Ok(h), Some(s)) if h.read().as_str() == s => {}
                (Err(_), None) => {}
                _ => rep.mismatch(what("SharedString load disagrees with UTF-8 validity / content")),
            }
            match (local.load::<StrBox>(&id), valid) {
                (Ok(h), Some(s)) if &*h.read().0 == s => {}
                (Err(_), None) => {}
                _ => rep.mismatch(what("Box<str> load disagrees with UTF-8 validity / content")),
            }
            // ParseLoader trims
            rep.checks += 1;
            let want: Option<i64> = valid.and_then(|s| s.trim().parse().ok());
            match (cache.load::<Num>(&id), want) {
                (Ok(h), Some(x)) if h.read().0 == x => {}
                (Err(_), None) => {}
                _ => rep.mismatch(what("ParseLoader result disagrees with trim().parse()")),
            }
            // load_expect panics with the id in its message on failure
            if valid.is_none() {
                rep.checks += 1;
                let r = std::panic::catch_unwind(std::panic::AssertUnwindSafe(|| {
                    let _ = cache.load_expect::<String>(&id);
                }));
                match r {
                    Err(p) => {
                        let msg = p.downcast_ref::<String>().cloned().unwrap_or_default();
                        if !msg.contains(&id) {
                            rep.mismatch(what("load_expect panic message does not name the id"));
                        }
                    }
                    Ok(()) => rep.mismatch(what("load_expect did not panic on an undecodable file")),
                }
            }
            for ext in ["bin", "txt", "num"] {
                src.remove(&id, ext);
            }
        }
    }
    rep.print();
}
