//! C12: the real `id_of_path` and the real notify event handler (re-exported under
//! cfg(assets_manager_verif)) against spec/Watcher.tla; and real inotify histories.
use crate::Report;
use serde_json::{json, Value};
use std::collections::BTreeSet;

#[cfg(am_hooks)]
use assets_manager::verif::watcher as w;

fn ent_json(e: &assets_manager::source::OwnedDirEntry) -> String {
    match e {
        assets_manager::source::OwnedDirEntry::File(i, x) => format!("file:{}:{}", i.as_str(), x.as_str()),
        assets_manager::source::OwnedDirEntry::Directory(i) => format!("dir:{}", i.as_str()),
    }
}
fn spec_ent(v: &Value) -> String {
    let id: Vec<&str> = v["id"].as_array().unwrap().iter().map(|x| x.as_str().unwrap()).collect();
    if v["k"] == "dir" { format!("dir:{}", id.join(".")) } else { format!("file:{}:{}", id.join("."), v["ext"].as_str().unwrap()) }
}

#[cfg(not(am_hooks))]
pub fn replay(_args: &[String]) {
    let mut rep = Report::default();
    rep.notes.push("hooks absent: the watcher pieces are private, nothing replayed".into());
    rep.print();
}
#[cfg(not(am_hooks))]
pub fn real(_args: &[String]) {
    let mut rep = Report::default();
    rep.notes.push("hooks absent".into());
    rep.print();
}

#[cfg(am_hooks)]
fn abs_path(root: &std::path::Path, comps: &Value) -> std::path::PathBuf {
    let mut p = root.to_path_buf();
    for c in comps.as_array().unwrap() {
        match c["c"].as_str().unwrap() {
            "n" => p.push(c["name"].as_str().unwrap()),
            "cur" => p.push("."),
            "par" => p.push(".."),
            _ => {
                let ext = c["ext"].as_str().unwrap();
                let stem = c["stem"].as_str().unwrap();
                p.push(if ext.is_empty() { stem.to_string() } else { format!("{stem}.{ext}") });
            }
        }
    }
    p
}

#[cfg(am_hooks)]
fn event_kind(kind: &str, is_dir: bool) -> notify::EventKind {
    use notify::event::*;
    match kind {
        "modify" => EventKind::Modify(ModifyKind::Data(DataChange::Any)),
        "any" => EventKind::Any,
        "create" => EventKind::Create(if is_dir { CreateKind::Folder } else { CreateKind::File }),
        "rename" => EventKind::Modify(ModifyKind::Name(RenameMode::Any)),
        _ => EventKind::Remove(if is_dir { RemoveKind::Folder } else { RemoveKind::File }),
    }
}

/// `amv watch-replay <cases.ndjson> <workdir>`
#[cfg(am_hooks)]
pub fn replay(args: &[String]) {
    let cases = crate::read_cases(&args[0]);
    let work = std::path::PathBuf::from(format!("{}/watch-{}", args[1], std::process::id()));
    let mut rep = Report::default();
    let mut skipped = 0usize;
    for (ci, case) in cases.iter().enumerate() {
        rep.cases += 1;
        let e = &case["entry"];
        let kind = case["kind"].as_str().unwrap();
        let is_dir = e["k"] == "dir";
        let root = work.join(format!("r{ci}"));
        let other = work.join(format!("o{ci}"));
        std::fs::create_dir_all(&root).unwrap();
        std::fs::create_dir_all(&other).unwrap();
        let root = root.canonicalize().unwrap();
        // one handler that lives across all notifications of this case, like the watcher thread's
        let (ptx, prx) = w::test_channel();
        let mut persistent = w::TestHandler::new(vec![root.clone()], ptx);
        for (si, sp) in case["cases"].as_array().unwrap().iter().enumerate() {
            rep.checks += 1;
            let p = abs_path(&root, &sp["path"]);
            // what is on disk: parents exist; the entry exists unless it was removed
            let comps = sp["path"].as_array().unwrap();
            let mut cur = root.clone();
            for (i, c) in comps.iter().enumerate() {
                let last = i + 1 == comps.len();
                match c["c"].as_str().unwrap() {
                    "n" if !last || is_dir => {
                        cur.push(c["name"].as_str().unwrap());
                        if !(last && kind == "remove") {
                            let _ = std::fs::create_dir_all(&cur);
                        }
                    }
                    "par" => {
                        cur.pop();
                    }
                    _ => {}
                }
            }
            if !is_dir && p.is_dir() {
                // this spelling needs a directory where the file itself must be: not a tree
                skipped += 1;
                let _ = std::fs::remove_dir_all(&p);
                continue;
            }
            if !is_dir && kind != "remove" {
                let _ = std::fs::write(&p, b"v1");
            }
            if kind == "remove" {
                let _ = if is_dir { std::fs::remove_dir_all(&p) } else { std::fs::remove_file(&p) };
                if !p.parent().map_or(false, |q| q.is_dir()) {
                    // this spelling goes through the removed directory itself: once it is gone the path no longer
                    // resolves, so no notification can carry it
                    skipped += 1;
                    continue;
                }
            }
            // 1. id_of_path on the reported path
            if kind != "remove" {
                let got = w::id_of_path(&root, &p).map(|x| ent_json(&x));
                let want = if sp["id"].get("nil").is_some() { None } else { Some(spec_ent(&sp["id"])) };
                if got != want {
                    rep.mismatch(json!({"what":"id_of_path does not invert path_of","path":p.display().to_string(),"got":got,"want":want,"entry":e}));
                }
            }
            // 2. the event handler, one root and two roots
            for roots in [vec![root.clone()], vec![other.clone(), root.clone()]] {
                let (tx, rx) = w::test_channel();
                let ev = notify::Event { kind: event_kind(kind, is_dir), paths: vec![p.clone()], attrs: Default::default() };
                w::handle_event(roots.clone(), tx, ev);
                let got: BTreeSet<String> = rx.drain().into_iter().flatten().map(|x| ent_json(&x)).collect();
                let want: BTreeSet<String> = sp["named"].as_array().unwrap().iter().map(spec_ent).collect();
                if got != want {
                    rep.mismatch(json!({"what":"the notification does not name exactly the entry (and its parent for create/rename/remove)",
                        "kind":kind,"path":p.display().to_string(),"roots":roots.len(),"got":got,"want":want,"entry":e}));
                }
            }
            // 3. the same notification through the long-lived handler, after notifications about paths that
            //    have no id (below two directories, so that a partly built id would be left behind)
            if si % 2 == 1 {
                for bad in [root.join("pa").join("pb").join("dotted.name.x"), root.join("pa").join(".hid.den.swp"),
                            root.join("pa").join("pb").join("..").join("..").join("..").join("esc.x")] {
                    let ev = notify::Event { kind: event_kind("modify", false), paths: vec![bad], attrs: Default::default() };
                    persistent.handle(ev);
                }
                let _ = prx.drain();
            }
            let ev = notify::Event { kind: event_kind(kind, is_dir), paths: vec![p.clone()], attrs: Default::default() };
            persistent.handle(ev);
            let got: BTreeSet<String> = prx.drain().into_iter().flatten().map(|x| ent_json(&x)).collect();
            let want: BTreeSet<String> = sp["named"].as_array().unwrap().iter().map(spec_ent).collect();
            if got != want {
                rep.mismatch(json!({"what":"a handler that already saw other notifications does not name exactly the entry (state carried from one notification to the next)",
                    "kind":kind,"path":p.display().to_string(),"after_unnameable_paths":si % 2 == 1,"got":got,"want":want,"entry":e}));
            }
            // clean the entry so that the next spelling starts from the same state
            let _ = if p.is_dir() && p != root { std::fs::remove_dir_all(&p) } else { std::fs::remove_file(&p) };
        }
        // 3. paths outside every root, or not expressible as an id: no event, the handler survives
        rep.checks += 1;
        let (tx, rx) = w::test_channel();
        let non_utf8 = {
            use std::os::unix::ffi::OsStrExt;
            root.join(std::ffi::OsStr::from_bytes(b"notes.\xFF"))
        };
        for bad in [other.join("x.y"), root.join("dotted.name.x"), root.join("a").join("..").join("..").join("escape.x"), non_utf8] {
            let ev = notify::Event { kind: event_kind("modify", false), paths: vec![bad], attrs: Default::default() };
            w::handle_event(vec![root.clone()], tx.clone(), ev);
        }
        // an un-nameable entry created inside a sub-directory: only the directory is named, and the
        // next path is not polluted by what was accumulated for the rejected one
        let _ = std::fs::create_dir_all(root.join("sub"));
        let ev = notify::Event { kind: event_kind("create", false), paths: vec![root.join("sub").join("dotted.name.x")], attrs: Default::default() };
        w::handle_event(vec![root.clone()], tx.clone(), ev);
        let got_sub: BTreeSet<String> = rx.drain().into_iter().flatten().map(|x| ent_json(&x)).collect();
        if got_sub != ["dir:sub".to_string()].into_iter().collect() {
            rep.mismatch(json!({"what":"creating an un-nameable entry in a sub-directory must name exactly that directory","got":got_sub}));
        }
        let _ = std::fs::remove_dir_all(root.join("sub"));
        let ev = notify::Event { kind: event_kind("modify", false), paths: vec![root.join("ok.x")], attrs: Default::default() };
        w::handle_event(vec![root.clone()], tx, ev);
        let got: Vec<String> = rx.drain().into_iter().flatten().map(|x| ent_json(&x)).collect();
        if got != vec!["file:ok:x".to_string()] {
            rep.mismatch(json!({"what":"paths outside the root or not expressible as an id produced events, or stopped the handler","got":got}));
        }
        let _ = std::fs::remove_dir_all(work.join(format!("r{ci}")));
        let _ = std::fs::remove_dir_all(&other);
    }
    // a watched root inside another watched root: a path is named once per root it lies under
    {
        rep.cases += 1;
        let root = work.join("nested");
        std::fs::create_dir_all(root.join("nest").join("deep")).unwrap();
        let root = root.canonicalize().unwrap();
        let inner = root.join("nest");
        std::fs::write(inner.join("f.x"), b"v1").unwrap();
        std::fs::write(root.join("top.x"), b"v1").unwrap();
        for roots in [vec![root.clone(), inner.clone()], vec![inner.clone(), root.clone()]] {
            for (kind, path, want) in [
                ("modify", inner.join("f.x"), vec!["file:nest.f:x", "file:f:x"]),
                ("create", inner.join("f.x"), vec!["file:nest.f:x", "dir:nest", "file:f:x", "dir:"]),
                ("modify", inner.join("deep").join("g.y"), vec!["file:nest.deep.g:y", "file:deep.g:y"]),
                ("modify", root.join("top.x"), vec!["file:top:x"]),
                ("remove", inner.join("gone.x"), vec!["file:nest.gone:x", "dir:nest", "file:gone:x", "dir:"]),
            ] {
                rep.checks += 1;
                let (tx, rx) = w::test_channel();
                let ev = notify::Event { kind: event_kind(kind, false), paths: vec![path.clone()], attrs: Default::default() };
                w::handle_event(roots.clone(), tx, ev);
                let got: BTreeSet<String> = rx.drain().into_iter().flatten().map(|x| ent_json(&x)).collect();
                let want: BTreeSet<String> = want.iter().map(|s| s.to_string()).collect();
                if got != want {
                    rep.mismatch(json!({"what":"with one watched root inside another, a notification does not name the entry under each root",
                        "kind":kind,"path":path.display().to_string(),"roots":roots.iter().map(|r| r.display().to_string()).collect::<Vec<_>>(),"got":got,"want":want}));
                }
            }
        }
    }
    let _ = std::fs::remove_dir_all(&work);
    rep.extra.insert("spellings_skipped_not_a_tree".into(), json!(skipped));
    rep.print();
}

/// `amv watch-real <workdir>`: real create / modify / rename / delete histories through the
/// real RecommendedWatcher; the entries that must eventually be named (inotify may add more).
#[cfg(am_hooks)]
pub fn real(args: &[String]) {
    use assets_manager::hot_reloading::FsWatcherBuilder;
    let mut rep = Report::default();
    let root = std::path::PathBuf::from(format!("{}/watchreal-{}", args[0], std::process::id()));
    std::fs::create_dir_all(root.join("sub")).unwrap();
    std::fs::write(root.join("keep.x"), b"v1").unwrap();
    let root = root.canonicalize().unwrap();
    let (tx, rx) = w::test_channel();
    let mut b = FsWatcherBuilder::new().expect("watcher");
    b.watch(root.clone()).expect("watch");
    b.build(tx);
    std::thread::sleep(std::time::Duration::from_millis(200));
    let mut step = |what: &str, action: &dyn Fn(), must: &[&str]| {
        rep.cases += 1;
        let _ = rx.drain();
        action();
        let deadline = std::time::Instant::now() + std::time::Duration::from_secs(3);
        let mut seen: BTreeSet<String> = BTreeSet::new();
        loop {
            for x in rx.drain().into_iter().flatten() {
                seen.insert(ent_json(&x));
            }
            if must.iter().all(|m| seen.contains(*m)) || std::time::Instant::now() > deadline {
                break;
            }
            std::thread::sleep(std::time::Duration::from_millis(20));
        }
        let missing: Vec<&str> = must.iter().filter(|m| !seen.contains(**m)).cloned().collect();
        if !missing.is_empty() {
            rep.mismatch(json!({"what": format!("a real {what} was not turned into events naming the entry and its directory"), "missing": missing, "seen": seen}));
        }
    };
    let r = root.clone();
    step("top-level file creation", &|| std::fs::write(r.join("new.x"), b"v1").unwrap(), &["file:new:x", "dir:"]);
    step("modification", &|| std::fs::write(r.join("keep.x"), b"v2").unwrap(), &["file:keep:x"]);
    step("nested file creation", &|| std::fs::write(r.join("sub").join("n.y"), b"v1").unwrap(), &["file:sub.n:y", "dir:sub"]);
    step("directory creation", &|| std::fs::create_dir(r.join("made")).unwrap(), &["dir:made", "dir:"]);
    step("rename inside a directory", &|| std::fs::rename(r.join("sub").join("n.y"), r.join("sub").join("m.y")).unwrap(), &["file:sub.m:y", "dir:sub"]);
    step("un-nameable file creation followed by a modification", &|| {
        std::fs::write(r.join("sub").join(".m.y.swp"), b"x").unwrap();
        std::fs::write(r.join("sub").join("m.y"), b"v3").unwrap();
    }, &["file:sub.m:y"]);
    // in-place writes (no truncation, no creation: one single-path notification each) to an entry without an id
    // two directories down, then to an asset: nothing of the first path may stick to the second
    std::fs::create_dir_all(r.join("deep").join("logs")).unwrap();
    std::fs::write(r.join("deep").join("logs").join("run.1.log"), b"l0").unwrap();
    std::fs::write(r.join("deep").join("logs").join("a.x"), b"v1").unwrap();
    std::fs::write(r.join("top.x"), b"v1").unwrap();
    std::thread::sleep(std::time::Duration::from_millis(300));
    let inplace = |p: std::path::PathBuf, data: &[u8]| {
        use std::io::Write;
        let mut f = std::fs::OpenOptions::new().write(true).open(p).unwrap();
        f.write_all(data).unwrap();
    };
    for round in 0..3 {
        let r2 = r.clone();
        step("in-place write to an entry without an id, then to a nested asset", &|| {
            inplace(r2.join("deep").join("logs").join("run.1.log"), format!("l{round}").as_bytes());
            std::thread::sleep(std::time::Duration::from_millis(60));
            inplace(r2.join("deep").join("logs").join("a.x"), format!("v{round}").as_bytes());
        }, &["file:deep.logs.a:x"]);
        step("in-place write to an entry without an id, then to a top-level asset", &|| {
            inplace(r2.join("deep").join("logs").join("run.1.log"), format!("m{round}").as_bytes());
            std::thread::sleep(std::time::Duration::from_millis(60));
            inplace(r2.join("top.x"), format!("v{round}").as_bytes());
        }, &["file:top:x"]);
    }
    step("nested file deletion", &|| std::fs::remove_file(r.join("sub").join("m.y")).unwrap(), &["file:sub.m:y", "dir:sub"]);
    step("top-level file deletion", &|| std::fs::remove_file(r.join("new.x")).unwrap(), &["file:new:x", "dir:"]);
    step("move in from outside", &|| {
        let outside = r.parent().unwrap().join(format!("outside-{}.x", std::process::id()));
        std::fs::write(&outside, b"v1").unwrap();
        std::fs::rename(&outside, r.join("moved.x")).unwrap();
    }, &["file:moved:x", "dir:"]);
    step("directory deletion", &|| std::fs::remove_dir(r.join("made")).unwrap(), &["dir:"]);
    drop(rx);
    // a root given through a symbolic link: the watcher reports paths under the root AS GIVEN
    {
        let link = root.parent().unwrap().join(format!("watchlink-{}", std::process::id()));
        let _ = std::fs::remove_file(&link);
        if std::os::unix::fs::symlink(&root, &link).is_ok() {
            let (tx, rx) = w::test_channel();
            let mut b = FsWatcherBuilder::new().expect("watcher");
            b.watch(link.clone()).expect("watch");
            b.build(tx);
            std::thread::sleep(std::time::Duration::from_millis(200));
            rep.cases += 1;
            std::fs::write(link.join("keep.x"), b"v7").unwrap();
            let deadline = std::time::Instant::now() + std::time::Duration::from_secs(3);
            let mut seen: BTreeSet<String> = BTreeSet::new();
            while std::time::Instant::now() < deadline && !seen.contains("file:keep:x") {
                for x in rx.drain().into_iter().flatten() {
                    seen.insert(ent_json(&x));
                }
                std::thread::sleep(std::time::Duration::from_millis(20));
            }
            if !seen.contains("file:keep:x") {
                rep.mismatch(json!({"what":"a modification under a root given through a symbolic link was not named","seen":seen}));
            }
            drop(rx);
            let _ = std::fs::remove_file(&link);
        }
    }
    // several roots given to ONE builder, the later ones inside / outside the first: every root is a prefix
    // reported paths are translated against, whatever the order they were added in (Watcher.tla: EventsFor over Roots)
    {
        let other = root.parent().unwrap().join(format!("watchother-{}", std::process::id()));
        std::fs::create_dir_all(&other).unwrap();
        let other = other.canonicalize().unwrap();
        for (label, order) in [("outer root first", vec![root.clone(), root.join("sub"), other.clone()]),
                               ("inner root first", vec![root.join("sub"), other.clone(), root.clone()])] {
            let (tx, rx) = w::test_channel();
            let mut b = FsWatcherBuilder::new().expect("watcher");
            for r in order.iter() {
                b.watch(r.clone()).expect("watch");
            }
            b.build(tx);
            std::thread::sleep(std::time::Duration::from_millis(200));
            for (what, path, must) in [("a change below two nested roots", root.join("sub").join("two.x"), vec!["file:sub.two:x", "file:two:x"]),
                                       ("a change below a disjoint root", other.join("o.x"), vec!["file:o:x"])] {
                rep.cases += 1;
                std::fs::write(&path, b"v1").unwrap();
                let deadline = std::time::Instant::now() + std::time::Duration::from_secs(3);
                let mut seen: BTreeSet<String> = BTreeSet::new();
                while std::time::Instant::now() < deadline && !must.iter().all(|m| seen.contains(*m)) {
                    for x in rx.drain().into_iter().flatten() {
                        seen.insert(ent_json(&x));
                    }
                    std::thread::sleep(std::time::Duration::from_millis(20));
                }
                let missing: Vec<&str> = must.iter().filter(|m| !seen.contains(**m)).cloned().collect();
                if !missing.is_empty() {
                    rep.mismatch(json!({"what": format!("{what} was not named relative to every watched root ({label})"), "missing": missing, "seen": seen}));
                }
                let _ = std::fs::remove_file(&path);
            }
            drop(rx);
        }
        let _ = std::fs::remove_dir_all(&other);
    }
    let _ = std::fs::remove_dir_all(&root);
    rep.print();
}

/// `amv watchseq-replay <cases.ndjson> <workdir>`: histories of WatcherSeq.tla through ONE real event
/// handler (its id builder lives across notifications).
#[cfg(am_hooks)]
pub fn seq_replay(args: &[String]) {
    let cases = crate::read_cases(&args[0]);
    let root = std::path::PathBuf::from(format!("{}/watchseq-{}", args[1], std::process::id()));
    std::fs::create_dir_all(&root).unwrap();
    let root = root.canonicalize().unwrap();
    let mut rep = Report::default();
    for hist in cases.iter() {
        rep.cases += 1;
        let (tx, rx) = w::test_channel();
        let mut handler = w::TestHandler::new(vec![root.clone()], tx);
        for (i, step) in hist.as_array().unwrap().iter().enumerate() {
            rep.checks += 1;
            let comps: Vec<&str> = step["path"].as_array().unwrap().iter().map(|c| c.as_str().unwrap()).collect();
            let mut p = root.clone();
            for (j, c) in comps.iter().enumerate() {
                let last = j + 1 == comps.len();
                match *c {
                    "<..>" => p.push(".."),
                    "<.>" => p.push("."),
                    name if last => p.push(format!("{name}.x")),
                    name => p.push(name),
                }
            }
            let ev = notify::Event { kind: event_kind("modify", false), paths: vec![p.clone()], attrs: Default::default() };
            handler.handle(ev);
            let got: Vec<String> = rx.drain().into_iter().flatten().map(|x| ent_json(&x)).collect();
            let want: Vec<String> = match step["want"].get("id") {
                Some(id) => vec![format!("file:{}:x", id.as_array().unwrap().iter().map(|s| s.as_str().unwrap()).collect::<Vec<_>>().join("."))],
                None => vec![],
            };
            if got != want {
                rep.mismatch(json!({"what":"the entry named for a notification depends on the notifications handled before it (or is not the id of the path)",
                    "step":i,"path":p.display().to_string(),"got":got,"want":want,"history":hist}));
                break;
            }
        }
    }
    let _ = std::fs::remove_dir_all(&root);
    rep.print();
}
#[cfg(not(am_hooks))]
pub fn seq_replay(_args: &[String]) {
    let mut rep = Report::default();
    rep.notes.push("hooks absent".into());
    rep.print();
}
