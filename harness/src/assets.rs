//! Tracked values and the leaf asset types.
//!
//! Leaf file format (text): `v<number>` is a decodable value, anything else is a
//! conversion error that names the extension it was read with.
use assets_manager::{loader::Loader, Asset, BoxedError, SharedString};
use serde_json::{json, Value};
use std::borrow::Cow;
use std::collections::BTreeMap;
use std::sync::atomic::{AtomicU64, Ordering};
use std::sync::Mutex;

// ---------------------------------------------------------------------------
// drop ledger
// ---------------------------------------------------------------------------
static NEXT_TOK: AtomicU64 = AtomicU64::new(1);

#[derive(Default)]
pub struct Ledger {
    /// token -> number of drops seen
    pub drops: BTreeMap<u64, u32>,
    pub created: Vec<u64>,
}

pub static LEDGER: Mutex<Ledger> = Mutex::new(Ledger { drops: BTreeMap::new(), created: Vec::new() });

pub fn ledger_reset() {
    let mut l = LEDGER.lock().unwrap_or_else(|e| e.into_inner());
    l.drops.clear();
    l.created.clear();
}

/// (created, dropped exactly once, dropped more than once, never dropped)
pub fn ledger_summary() -> (usize, usize, Vec<u64>, Vec<u64>) {
    let l = LEDGER.lock().unwrap_or_else(|e| e.into_inner());
    let mut once = 0;
    let mut multi = Vec::new();
    let mut never = Vec::new();
    for t in l.created.iter() {
        match l.drops.get(t) {
            Some(1) => once += 1,
            Some(_) => multi.push(*t),
            None => never.push(*t),
        }
    }
    (l.created.len(), once, multi, never)
}

/// A value whose creation and destruction are recorded (ledger + trace).
#[derive(Debug)]
pub struct Val {
    pub tok: u64,
    pub data: Value,
}

impl Val {
    pub fn new(data: Value) -> Val {
        let tok = NEXT_TOK.fetch_add(1, Ordering::Relaxed);
        LEDGER.lock().unwrap_or_else(|e| e.into_inner()).created.push(tok);
        crate::trace::emit(json!({"ev":"Produce","tok":tok}));
        Val { tok, data }
    }
}

impl Drop for Val {
    fn drop(&mut self) {
        LEDGER
            .lock()
            .unwrap_or_else(|e| e.into_inner())
            .drops
            .entry(self.tok)
            .and_modify(|n| *n += 1)
            .or_insert(1);
        crate::trace::emit(json!({"ev":"Drop","tok":self.tok}));
    }
}

// ---------------------------------------------------------------------------
// leaf types
// ---------------------------------------------------------------------------
/// The leaf type table. The same table is written in spec/AMTypes.tla (`LeafInfo`);
/// `amv types` dumps this one so that the driver can compare the two.
pub const LEAF_EXTS: [&[&str]; 8] = [
    &["x"],           // L0 hot
    &["x", "y"],      // L1 hot, two extensions
    &["x"],           // L2 NOT hot, same extension as L0
    &["y", "x"],      // L3 hot, default value
    &[],              // L4 no extension, no default
    &[],              // L5 no extension, default
    &["x", "y", "z"], // L6 hot, three extensions
    &[""],            // L7 hot, empty extension
];
pub const LEAF_HOT: [bool; 8] = [true, true, false, true, true, true, true, true];
pub const LEAF_DEFAULT: [bool; 8] = [false, false, false, true, false, true, false, false];

#[derive(Debug)]
pub struct Leaf<const I: usize>(pub Val);

#[derive(Debug)]
pub struct ConvError {
    pub ext: String,
}
impl std::fmt::Display for ConvError {
    fn fmt(&self, f: &mut std::fmt::Formatter<'_>) -> std::fmt::Result {
        write!(f, "undecodable content (ext {:?})", self.ext)
    }
}
impl std::error::Error for ConvError {}

pub fn parse_leaf(content: &[u8]) -> Option<i64> {
    let s = std::str::from_utf8(content).ok()?;
    let s = s.strip_prefix('v')?;
    s.parse().ok()
}

pub struct LeafLoader;

/// A panic payload that is neither a `String` nor a `&str` (what `panic_any` / a cancellation gives).
pub struct InjectedPanic(pub &'static str);
static PANICS: std::sync::atomic::AtomicUsize = std::sync::atomic::AtomicUsize::new(0);
/// Injected panics alternate between a message payload and an opaque one: containment must not depend on it.
pub fn injected_panic(msg: &'static str) -> ! {
    if PANICS.fetch_add(1, std::sync::atomic::Ordering::Relaxed) % 2 == 0 {
        std::panic::panic_any(InjectedPanic(msg))
    } else {
        panic!("{msg}")
    }
}

/// Loader faults: fail or panic at the k-th invocation (0-based) counted from arming.
pub struct LoaderFault {
    pub at: usize,
    pub panic: bool,
    pub thread: Option<String>,
}
pub static LOADER_FAULT: Mutex<(usize, Option<LoaderFault>)> = Mutex::new((0, None));

pub fn arm_loader(f: Option<LoaderFault>) {
    *LOADER_FAULT.lock().unwrap_or_else(|e| e.into_inner()) = (0, f);
}

impl<const I: usize> Loader<Leaf<I>> for LeafLoader {
    fn load(content: Cow<[u8]>, ext: &str) -> Result<Leaf<I>, BoxedError> {
        let outcome;
        {
            let mut g = LOADER_FAULT.lock().unwrap_or_else(|e| e.into_inner());
            let n = g.0;
            let mut hit = None;
            if let Some(f) = &g.1 {
                let me = crate::trace::thread();
                if f.thread.as_ref().map_or(true, |t| *t == me) {
                    if f.at == n {
                        hit = Some(f.panic);
                    }
                    g.0 += 1;
                }
            }
            outcome = hit;
        }
        match outcome {
            Some(true) => {
                crate::trace::emit(json!({"ev":"Loader","ext":ext,"res":"panic"}));
                injected_panic("injected loader panic");
            }
            Some(false) => {
                crate::trace::emit(json!({"ev":"Loader","ext":ext,"res":"fault"}));
                return Err(Box::new(ConvError { ext: ext.to_string() }));
            }
            None => {}
        }
        match parse_leaf(&content) {
            Some(n) => {
                crate::trace::emit(json!({"ev":"Loader","ext":ext,"res":"ok","c":n}));
                Ok(Leaf(Val::new(json!({"t":"leaf","c":n,"ext":ext}))))
            }
            None => {
                crate::trace::emit(json!({"ev":"Loader","ext":ext,"res":"bad"}));
                if I == 1 || I == 6 {
                    // many real parsers report undecodable input as an io::Error: still a decoding error
                    Err(Box::new(std::io::Error::new(std::io::ErrorKind::InvalidData, format!("conv:{ext}"))))
                } else {
                    Err(Box::new(ConvError { ext: ext.to_string() }))
                }
            }
        }
    }
}

impl<const I: usize> Asset for Leaf<I> {
    const EXTENSIONS: &'static [&'static str] = LEAF_EXTS[I];
    type Loader = LeafLoader;
    const HOT_RELOADED: bool = LEAF_HOT[I];

    fn default_value(_id: &SharedString, error: BoxedError) -> Result<Self, BoxedError> {
        if LEAF_DEFAULT[I] {
            Ok(Leaf(Val::new(json!({"t":"default"}))))
        } else {
            Err(error)
        }
    }
}

impl assets_manager::asset::NotHotReloaded for Leaf<2> {}
