//! Conformance harness binding the TLA+ specifications under /verif/spec to the
//! real `assets_manager` crate (path dependency on /repo).
pub mod assets;
pub mod bytesfid;
pub mod extra;
pub mod front;
pub mod fsreplay;
pub mod mem;
pub mod nodes;
pub mod once;
pub mod race;
pub mod replay;
pub mod shared;
pub mod sources;
pub mod stress;
pub mod trace;
pub mod watch;

pub mod c18;

use serde_json::Value;

/// Read generated behaviours: one JSON value per line on stdin or from a file.
pub fn read_cases(path: &str) -> Vec<Value> {
    let text = if path == "-" {
        let mut s = String::new();
        std::io::Read::read_to_string(&mut std::io::stdin(), &mut s).unwrap();
        s
    } else {
        std::fs::read_to_string(path).unwrap_or_else(|e| {
            eprintln!("cannot read {path}: {e}");
            std::process::exit(2)
        })
    };
    text.lines()
        .filter(|l| !l.trim().is_empty())
        .map(|l| serde_json::from_str(l).unwrap_or_else(|e| {
            eprintln!("bad case line: {e}: {l}");
            std::process::exit(2)
        }))
        .collect()
}

/// Result of a replay run, printed as one JSON object on stdout for the driver.
#[derive(Default, serde::Serialize)]
pub struct Report {
    pub cases: usize,
    pub checks: usize,
    pub mismatches: Vec<Value>,
    pub notes: Vec<String>,
    pub extra: serde_json::Map<String, Value>,
}

impl Report {
    pub fn mismatch(&mut self, v: Value) {
        if self.mismatches.len() < 50 {
            self.mismatches.push(v);
        }
    }
    pub fn print(&self) {
        println!("REPORT {}", serde_json::to_string(self).unwrap());
    }
}
