//! Global ndjson tracer: one sequence number per line, taken under the tracer mutex.
use serde_json::{json, Map, Value};
use std::cell::RefCell;
use std::sync::atomic::{AtomicBool, Ordering};
use std::sync::{Condvar, Mutex};

pub struct Tracer {
    pub lines: Vec<Value>,
}

static ON: AtomicBool = AtomicBool::new(false);
static TRACER: Mutex<Tracer> = Mutex::new(Tracer { lines: Vec::new() });
static CV: Condvar = Condvar::new();

thread_local! {
    static TH: RefCell<Option<String>> = const { RefCell::new(None) };
}

/// Name the current thread in the trace ("t1", "t2", ...).
pub fn set_thread(name: &str) {
    TH.with(|t| *t.borrow_mut() = Some(name.to_string()));
}

/// Trace name of the current thread; the reloader thread is recognised by its OS name.
pub fn thread() -> String {
    TH.with(|t| {
        if let Some(n) = &*t.borrow() {
            return n.clone();
        }
        let n = match std::thread::current().name() {
            Some("assets_hot_reload") => "R".to_string(),
            Some("main") => "main".to_string(),
            Some(other) => other.to_string(),
            None => "anon".to_string(),
        };
        *t.borrow_mut() = Some(n.clone());
        n
    })
}

pub fn enable() {
    ON.store(true, Ordering::SeqCst);
    #[cfg(am_hooks)]
    assets_manager::verif::set_tracer(hook);
}

pub fn disable() {
    ON.store(false, Ordering::SeqCst);
}

pub fn enabled() -> bool {
    ON.load(Ordering::Relaxed)
}

#[cfg(am_hooks)]
fn hook(name: &'static str, fields: String) {
    if !enabled() {
        return;
    }
    let v: Value = serde_json::from_str(&format!("{{{}}}", fields))
        .unwrap_or_else(|e| json!({"unparsed": fields, "err": e.to_string()}));
    let mut m = match v {
        Value::Object(m) => m,
        _ => Map::new(),
    };
    m.insert("ev".into(), json!(name));
    m.insert("hook".into(), json!(true));
    push(m);
}

fn lock() -> std::sync::MutexGuard<'static, Tracer> {
    TRACER.lock().unwrap_or_else(|e| e.into_inner())
}

fn push(mut m: Map<String, Value>) {
    if !m.contains_key("th") {
        m.insert("th".into(), json!(thread()));
    }
    let mut t = lock();
    let n = t.lines.len() + 1;
    m.insert("seq".into(), json!(n));
    t.lines.push(Value::Object(m));
    CV.notify_all();
}

/// Emit one event (a JSON object with at least "ev").
pub fn emit(v: Value) {
    if !enabled() {
        return;
    }
    if let Value::Object(m) = v {
        push(m);
    }
}

/// Take all lines recorded so far.
pub fn take() -> Vec<Value> {
    std::mem::take(&mut lock().lines)
}

/// Visit every recorded line in order.
pub fn scan(mut f: impl FnMut(&Value)) {
    for l in lock().lines.iter() {
        f(l);
    }
}

pub fn len() -> usize {
    lock().lines.len()
}

/// Count lines satisfying `f` (used for barriers on hook events).
pub fn count(f: impl Fn(&Value) -> bool) -> usize {
    lock().lines.iter().filter(|v| f(v)).count()
}

/// Block until `pred(lines)` holds or the timeout expires. Returns whether it held.
pub fn wait_until(timeout: std::time::Duration, pred: impl Fn(&[Value]) -> bool) -> bool {
    let deadline = std::time::Instant::now() + timeout;
    let mut t = lock();
    loop {
        if pred(&t.lines) {
            return true;
        }
        let now = std::time::Instant::now();
        if now >= deadline {
            return false;
        }
        let (g, _) = CV
            .wait_timeout(t, (deadline - now).min(std::time::Duration::from_millis(50)))
            .unwrap_or_else(|e| e.into_inner());
        t = g;
    }
}

pub fn write_ndjson(path: &str, lines: &[Value]) -> std::io::Result<()> {
    use std::io::Write;
    let mut f = std::io::BufWriter::new(std::fs::File::create(path)?);
    for l in lines {
        writeln!(f, "{}", l)?;
    }
    Ok(())
}

pub const HAS_HOOKS: bool = cfg!(am_hooks);
