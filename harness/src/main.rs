use amverif::*;

#[global_allocator]
static ALLOC: amverif::shared::ledger::Ledger = amverif::shared::ledger::Ledger;

/// A logger that accepts every level and formats every record into nothing: the crate's log statements
/// (and the expressions they evaluate) run as they would in an application that logs at trace level.
struct NullLogger;
struct NullWriter;
impl std::fmt::Write for NullWriter {
    fn write_str(&mut self, _s: &str) -> std::fmt::Result {
        Ok(())
    }
}
impl log::Log for NullLogger {
    fn enabled(&self, _m: &log::Metadata) -> bool {
        true
    }
    fn log(&self, record: &log::Record) {
        let _ = std::fmt::write(&mut NullWriter, *record.args());
    }
    fn flush(&self) {}
}
static LOGGER: NullLogger = NullLogger;

fn main() {
    if std::env::var("AMV_LOG").map_or(true, |v| v != "off") {
        let _ = log::set_logger(&LOGGER);
        log::set_max_level(log::LevelFilter::Trace);
    }
    let args: Vec<String> = std::env::args().collect();
    let cmd = args.get(1).map(|s| s.as_str()).unwrap_or("");
    let rest: Vec<String> = args.iter().skip(2).cloned().collect();
    match cmd {
        "info" => {
            println!("{}", serde_json::json!({"hooks": trace::HAS_HOOKS}));
        }
        "bytes-fidelity" => bytesfid::main(&rest),
        "c13-types" => extra::c13_types(&rest),
        "c01-fronts" => extra::c01_fronts(&rest),
        "c02-types" => extra::c02_types(&rest),
        "c03-fs" => extra::c03_fs(&rest),
        "c10-get" => extra::c10_get(&rest),
        "c14-extra" => extra::c14_extra(&rest),
        "c15-life" => stress::c15(&rest),
        "race-stress" => race::main(&rest),
        "c07-stress" => stress::c07(&rest),
        "c07-pods" => extra::c07_pods(&rest),
        "src-replay" => sources::main(&rest),
        "c09-trunc" => sources::c09_trunc(&rest),
        "embed-check" => sources::embed_check(&rest),
        "shared-replay" => shared::replay(&rest),
        "utf8-replay" => shared::utf8(&rest),
        "once-replay" => once::main(&rest),
        "watch-replay" => watch::replay(&rest),
        "watch-real" => watch::real(&rest),
        "watchseq-replay" => watch::seq_replay(&rest),
        "fs-replay" => fsreplay::main(&rest),
        "c08-stress" => stress::c08(&rest),
        "cache-replay" => replay::main(&rest),
        "rid-replay" => c18::replay(&rest),
        "rid-conc" => c18::concurrent(&rest),
        _ => {
            eprintln!("unknown subcommand {cmd:?}");
            std::process::exit(2);
        }
    }
}
