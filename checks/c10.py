"""C10  What is declared non-reloadable is never rewritten.

AssetCache.tla: `NeverRewritten`, `StaticEntry`, `InsertedNeverReloaded` are checked by TLC on
world W6 (load / remove / take / clear / get_or_insert of one key mixed with edits and
notifications), with FixGoi = FALSE as the negative control (D7).  Every history is replayed on
every constructor: with_source (hot), without_hot_reloading, LocalAssetCache, a source that
does not support hot-reloading, each also through AnyCache.
"""
import vlib
import worlds
from checks import hotcommon

LEVEL = "model_checking"


def run(ctx):
    thorough = ctx.tier == "thorough"
    n = 6 if thorough else 5
    r = worlds.model_check("W6", n, ["StaticEntry", "InsertedNeverReloaded"], ["NeverRewritten"])
    ctx.add_tlc(f"AssetCache.tla on W6, depth {n}: NeverRewritten, StaticEntry, InsertedNeverReloaded", r)
    if r.violated:
        ctx.violation("C10/spec-W6", f"specification violates {r.violated}", {"tlc": r.trace})
    old = worlds.FIX_GOI
    worlds.FIX_GOI = "FALSE"
    try:
        r = worlds.model_check("W6", n, ["InsertedNeverReloaded"])
    finally:
        worlds.FIX_GOI = old
    if not r.violated:
        raise vlib.ToolError("negative control: as-built get_or_insert does not violate InsertedNeverReloaded in the model")
    ctx.add_tlc("negative control: FixGoi = FALSE (must fail: D7)", r, negative=True)
    sim = 3000 if thorough else 600
    suite = [("W6d", 5, None, None), ("W6d", 6, None, 8000, "KeepGoi"), ("W6", 6, sim, None), ("W6c", 5, sim, None), ("W3", 6, sim // 2, None)]
    if thorough:
        suite += [("W6", 5, None, 60000), ("W6d", 6, None, 60000)]
    hotcommon.run_suite(ctx, suite, hotcommon.classify_other("C10"))
    # an inserted (static) value must also survive a load of the same key that races with the insertion
    from checks import racecommon
    racecommon.traces(ctx, thorough)
    rep = vlib.run_bin("amv", ["c10-get", ctx.seed])
    rep = worlds.parse_report(rep)
    for m in rep["mismatches"]:
        ctx.violation("C10/get:" + m.get("what", "?"), m.get("what"), {"mismatch": m})
    ctx.cov["handle_get_cases"] = rep["cases"]
    ctx.cov["rule"] = ("histories of worlds W6d (exhaustive to length 5), W6, W6c, W3 on all constructors; distinct by content; "
                       "non-trivial = some reload happened or some call failed")


replay = hotcommon.replay_file
