"""C09  Faults while loading are contained.

AssetCache.tla with a fault plan (k-th source read fails with a given io kind; k-th loader
invocation errs or panics) as an environment action: TLC checks FailedLoadNoInsert, NoOverwrite,
NoUseAfterDrop over every fault position and kind of worlds W7 (initial loads) and W7c (reloads
on the reloader thread), and every (scenario, fault position, kind, repair, retry) history is
replayed on the real crate: result of the faulted call, untouched cached values, follow-up loads
and hot_reload after repair, dependency recording after the fault (registered sets), and that
hot_reload returns.
"""
import vlib
import worlds
from checks import hotcommon

LEVEL = "fault_enumeration"


def run(ctx):
    thorough = ctx.tier == "thorough"
    r = worlds.model_check("W7", 4 if thorough else 3, ["NoUseAfterDrop"], ["FailedLoadNoInsert", "NoOverwrite"])
    ctx.add_tlc("AssetCache.tla on W7 (faults at every read index x kind, loader err/panic)", r)
    if r.violated:
        ctx.violation("C09/spec-W7", f"specification violates {r.violated}", {"tlc": r.trace})
    r = worlds.model_check("W7c", 5, ["NoUseAfterDrop", "Converged"], ["FailedLoadNoInsert", "RidStep"])
    ctx.add_tlc("AssetCache.tla on W7c (faults during reloads of a chain)", r)
    if r.violated:
        ctx.violation("C09/spec-W7c", f"specification violates {r.violated}", {"tlc": r.trace})
    sim = 3000 if thorough else 600
    suite = [("W7", 3, None, None), ("W7c", 4, None, 8000), ("W7c", 7, sim, None), ("W7r", 6, sim, None), ("W7", 6, sim, None),
             ("W7d", 5, None, 8000), ("W7d", 7, sim, None), ("W9b", 4, None, 6000),
             ("W5f", 3, None, 6000), ("W5f", 6, sim, None), ("W5c", 3, None, 4000)]
    if thorough:
        suite += [("W7", 4, None, 60000), ("W7c", 5, None, 60000)]
    hotcommon.run_suite(ctx, suite, hotcommon.classify_other("C09"))
    # faults that are not injected errors: a file-backed archive whose file shrinks after the index was built
    rep = worlds.parse_report(vlib.run_bin("amv", ["c09-trunc", vlib.WORK], timeout=600))
    ctx.cov["truncated_archive_cases"] = rep["cases"]
    for m in rep["mismatches"]:
        ctx.violation(f"C09/truncated-archive:{m.get('kind')}", f"{m.get('what')} ({m.get('kind')}, archive file cut to {m.get('file_bytes')} bytes)", {"mismatch": m})
    ctx.cov["rule"] = ("every history of worlds W7/W7c/W7r: a fault plan (read index 0..3 x {notfound, denied, other}; loader invocation 0..1 x {err, panic}) "
                       "armed before a load or a reload, then disarm/repair and retry; distinct by content; non-trivial = some call failed or some reload happened")
    ctx.cov["exhaustive"] = False
    ctx.assumptions += ["one fault per armed plan; faults are injected by the harness-owned Source and Loader",
                        "with a fault armed over unordered reloads only presence is compared (which asset meets the fault depends on hash order)"]


replay = hotcommon.replay_file
