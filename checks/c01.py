"""C01  One stable handle per (id, type), whatever the thread interleaving.

CacheRace.tla: look-up, value production and first-writer-wins insertion as separate steps of N
threads; TLC checks StableHandle, SeesWinner, PresenceMonotone, HandleLive over every interleaving
of 3 threads x 2 calls on 1-2 keys (insert-replaces is the negative control).  The real cache is
driven by 2-4 threads per round (load / get_cached / get_or_insert / contains on overlapping keys,
simultaneous misses forced with a gate in the harness-owned source, thousands of unrelated
insertions meanwhile, long-lived handles re-read at the end); Begin/End with the returned handle's
address and value token, the Insert hook inside the shard lock, and value drops are validated
against the specification by linearization search.  Also run with parking_lot locks.
"""
import vlib
import worlds
from checks import racecommon

LEVEL = "model_checking"


def run(ctx):
    thorough = ctx.tier == "thorough"
    racecommon.model(ctx, thorough, None)
    feats = [(), ("parking_lot",), ("std-hasher",)]
    racecommon.traces(ctx, thorough, feats)
    # sequential front-ends: the same handle through AssetCache / AnyCache / LocalAssetCache
    rep = worlds.parse_report(vlib.run_bin("amv", ["c01-fronts", ctx.seed]))
    ctx.cov["front_end_identity_cases"] = rep["cases"]
    for m in rep["mismatches"]:
        ctx.violation("C01/fronts:" + m.get("what", "?"), m.get("what"), {"mismatch": m})
    p = vlib.run_bin("amv", ["c02-types", ctx.seed, 40 if thorough else 12])
    why = vlib.died(p)
    if why:
        ctx.violation("C01/types-crash", f"64 types under one id: the process died ({why})", {"stderr": p.stderr[-1500:]})
    else:
        rep = worlds.parse_report(p)
        for m in rep["mismatches"]:
            ctx.violation(f"C01/types:{m.get('front')}", "presence / handle of a key depends on entries of other types with the same id", {"mismatch": m})
    ctx.cov["rule"] = ("cases = stress runs (seed, feature set), each 150-500 rounds of 2-4 threads x 1-3 calls; distinct by measured content; "
                       "all non-trivial (every run has forced simultaneous misses and lost insertion races, counted in race_runs)")
    ctx.assumptions += ["real schedules are those the OS produced plus gate-forced simultaneous misses; all schedules are covered only in the model (3 threads)",
                        "handle identity is the address of the returned &Handle; validity is observed by reading the value token through it",
                        "three builds of the harness: default (ahash, std locks), parking_lot, std-hasher"]


def replay(ctx, path):
    import json
    d = json.load(open(path))
    print(json.dumps({k: v for k, v in d.items() if k != "tlc"}, indent=1)[:2000])
    tf = d.get("trace_file")
    if tf:
        verdict, tr, detail = vlib.trace_check("Trace_CacheRace", "Trace_CacheRace.cfg", tf, name="race-replay")
        print(verdict, detail)
        return 0 if verdict == "accepted" else 1
    return 0
