"""C07  Readers are isolated from reloads: guards pin values, no torn reads.

RwGuard.tla refines the rewrite of an entry into word-by-word swaps under the entry lock and a
read into word-by-word reads under a guard; TLC checks NoTornRead, Pinned/PinnedStep,
ChangeOnlyInHotReload and ReturnAfterPass over every interleaving of 2 readers, the reloader and a
hot_reload caller (local and enhance mode); a writer that does not exclude readers and an answer
sent before the pass are the negative controls.  The real crate is driven by 4 reader threads
(short reads, long-held guards, mapped guards) over a 4 KiB inline self-checking value against a
stream of reloads, under std and parking_lot locks, in hot_reload mode and enhance mode; GuardAcq /
GuardRel (value version, reload id, uniformity), the Write hook inside the write lock and the
Begin/End of hot_reload are validated against the specification with its invariants.
"""
import json
import os

import vlib
import worlds

LEVEL = "model_checking"


def run(ctx):
    thorough = ctx.tier == "thorough"
    for cfg, label in [("MC_RwGuard_ok.cfg", "hot_reload mode"), ("MC_RwGuard_static.cfg", "enhance mode")]:
        r = vlib.tlc_expect_ok("MC_RwGuard", cfg, workers=4)
        ctx.add_tlc(f"RwGuard.tla {label}: 2 readers x reloader x caller, 3 words", r)
        if r.violated:
            ctx.violation("C07/spec", f"RwGuard.tla violates {r.violated} ({cfg})", {"tlc": r.trace})
    r = vlib.tlc_expect_violation("MC_RwGuard", "MC_RwGuard_torn.cfg", "NoTornRead", workers=2)
    ctx.add_tlc("negative control: the writer does not exclude readers (must tear)", r, negative=True)
    r = vlib.tlc_expect_violation("MC_RwGuard", "MC_RwGuard_early.cfg", workers=2)
    ctx.add_tlc("negative control: hot_reload answered before the pass (must change values outside hot_reload)", r, negative=True)
    writes = 150 if thorough else 50
    validated = 0
    for feats in ((), ("parking_lot",)):
        for mode in ("local", "static"):
            for sd in range(ctx.seed, ctx.seed + (3 if thorough else 1)):
                out = os.path.join(vlib.WORK, f"c07-{mode}-{sd}-{os.getpid()}.ndjson")
                rep = worlds.parse_report(vlib.run_bin("amv", ["c07-stress", out, sd, writes, mode], features=feats, timeout=300))
                ctx.case(dict(mode=mode, seed=sd, features=list(feats), **rep))
                sc = dict(mode=mode, seed=sd, writes=writes, features=list(feats))
                if rep["torn"]:
                    ctx.violation(f"C07/torn:{mode}", f"{rep['torn']} reads under a guard saw a mixture of two values", dict(scenario=sc, trace_file=out))
                if rep.get("hot_reload_returned_before_slow_reload"):
                    ctx.violation(f"C07/early-return:{mode}", "hot_reload returned while the reload it had triggered was still reading the source (2.6 s into a blocked read): "
                                  "the value changes after the call, outside hot_reload", dict(scenario=sc))
                if not rep.get("slow_reload_applied", True):
                    ctx.violation(f"C07/slow-reload-lost:{mode}", "after a reload whose source read took seconds, the value is not the new one when hot_reload has returned", dict(scenario=sc))
                if rep["final_rid"] != writes:
                    ctx.violation(f"C07/lost-reload:{mode}", f"{writes} notified rewrites but the reload id is {rep['final_rid']}", dict(scenario=sc))
                if vlib.hooks_present():
                    verdict, tr, detail = vlib.trace_check("Trace_RwGuard", f"Trace_RwGuard_{mode}.cfg", out, name=f"c07-{mode}-{sd}")
                    if verdict == "error":
                        raise vlib.ToolError(f"trace validation failed to run: {detail}")
                    if verdict != "accepted":
                        keep = out + ".rejected"
                        os.replace(out, keep)
                        ctx.violation(f"C07/trace:{mode}", f"guards / writes / hot_reload events are not a behaviour of RwGuard.tla ({verdict}: {detail})",
                                      dict(scenario=sc, trace_file=keep))
                        continue
                    validated += 1
                    with open(out) as f:
                        ctx.sample({"mode": mode, "trace_head": [json.loads(x) for x in f.read().splitlines()[:10]]})
                os.remove(out)
    ctx.cov["traces_validated_against_impl"] = validated
    # RwGuard.tla has a value of W words; the implementation moves BYTES: every size class and alignment
    # (1 .. 4100 bytes; sizes that are not a multiple of the word size) must be replaced whole
    rep = worlds.parse_report(vlib.run_bin("amv", ["c07-pods"], timeout=600))
    ctx.cov["value_size_classes"] = rep["cases"]
    for c in range(rep["cases"]):
        ctx.case(dict(pods=c))
    for m in rep["mismatches"]:
        ctx.violation(f"C07/mixture:{m.get('element_type')}x{m.get('elements')}", f"{m.get('what')} ({m.get('bytes')} bytes, alignment {m.get('align')}, "
                      f"first wrong element {m.get('first_wrong_element')})", {"mismatch": m})
    demo = os.path.join(vlib.WORK, f"c07-demo-{os.getpid()}.ndjson")
    evs = [{"ev": "Notified"}, {"ev": "GuardAcq", "th": "r1", "rid": 0, "val": 0}, {"ev": "Begin"}, {"ev": "Write", "rid": 1},
           {"ev": "GuardRel", "th": "r1", "rid": 1, "val": 0, "uniform": True}, {"ev": "End"}]
    with open(demo, "w") as f:
        for e in evs:
            f.write(json.dumps(e) + "\n")
    verdict, tr, detail = vlib.trace_check("Trace_RwGuard", "Trace_RwGuard_local.cfg", demo, name="c07-demo")
    os.remove(demo)
    if verdict in ("accepted", "error"):
        raise vlib.ToolError("binding demo: a Write between a reader's GuardAcq and GuardRel was not rejected")
    ctx.cov["binding_demos"].append({"corrupted_trace": "Write while a guard is held", "verdict": verdict})
    ctx.cov["rule"] = ("cases = stress runs (mode, seed, lock implementation): 4 readers x 50-150 rewrites; distinct by measured content; all non-trivial")
    ctx.assumptions += ["detection of a racy implementation in the real runs is probabilistic (more rewrites in the thorough tier)",
                        "TLA+ steps are sequentially consistent: Release/Acquire orderings are not modelled"]


def replay(ctx, path):
    d = json.load(open(path))
    print(json.dumps(d, indent=1)[:2500])
    tf = d.get("trace_file")
    if tf and os.path.exists(tf):
        mode = d.get("scenario", {}).get("mode", "local")
        verdict, tr, detail = vlib.trace_check("Trace_RwGuard", f"Trace_RwGuard_{mode}.cfg", tf, name="c07-replay")
        print(verdict, detail)
        return 0 if verdict == "accepted" else 1
    return 0
