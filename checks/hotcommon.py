"""Shared pieces of the hot-reloading checks (C05, C06, C09, C10, C14)."""
import json

import vlib
import worlds

D8_KEY = "C05/rewire-same-batch"


def classify_c05(m):
    # the history that fails: one pass reloads C, whose reload makes it depend on an asset
    # reloaded in the same pass that the pre-pass graph did not order before C (spec flag d8)
    if m.get("d8"):
        return D8_KEY
    return None


def classify_other(prop):
    def f(m):
        if m.get("d8"):
            return "SKIP"      # C05's finding, reported by C05's check only
        return None
    return f


def run_suite(ctx, suite, classify):
    def cls(m):
        k = classify(m)
        return k
    # wrap ctx.violation to drop SKIP
    orig = ctx.violation

    def vio(key, what, payload):
        if key == "SKIP":
            ctx.cov["skipped_c05_shape"] = ctx.cov.get("skipped_c05_shape", 0) + 1
            return
        orig(key, what, payload)
    ctx.violation = vio
    try:
        worlds.run_suite(ctx, suite, classify=cls,
                         nontrivial=lambda b: any(e["rid"] > 0 for s in b[1:] for e in s["snap"]) or any(not s["step"].get("ok", True) for s in b[1:]))
    finally:
        ctx.violation = orig


def replay_file(ctx, path):
    d = json.load(open(path))
    if not d.get("behaviour"):
        print(json.dumps(d, indent=1)[:3000])
        return 0
    rep = worlds.replay([d["behaviour"]] * 8)
    for m in rep["mismatches"]:
        m.pop("behaviour", None)
    print(json.dumps(rep["mismatches"][:2], indent=1)[:4000])
    return 1 if rep["mismatches"] else 0
