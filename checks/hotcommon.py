"""Shared pieces of the hot-reloading checks (C05, C06, C09, C10, C14)."""
import json

import vlib
import worlds

D8_KEY = "C05/rewire-same-batch"


def classify_c05(m):
    # the history that fails: one pass reloads C, whose reload makes it depend on an asset
    # reloaded in the same pass that the pre-pass graph did not order before C (spec flag d8)
    if m.get("d8"):
        return D8_KEY
    return None


def classify_other(prop):
    def f(m):
        if m.get("d8"):
            return "SKIP"      # C05's finding, reported by C05's check only
        return None
    return f


def run_suite(ctx, suite, classify):
    def cls(m):
        k = classify(m)
        return k
    # wrap ctx.violation to drop SKIP
    orig = ctx.violation

    def vio(key, what, payload):
        if key == "SKIP":
            ctx.cov["skipped_c05_shape"] = ctx.cov.get("skipped_c05_shape", 0) + 1
            return
        orig(key, what, payload)
    ctx.violation = vio
    try:
        worlds.run_suite(ctx, suite, classify=cls,
                         nontrivial=lambda b: any(e["rid"] > 0 for s in b[1:] for e in s["snap"]) or any(not s["step"].get("ok", True) for s in b[1:]))
    finally:
        ctx.violation = orig


def replay_file(ctx, path):
    d = json.load(open(path))
    if not d.get("behaviour"):
        print(json.dumps(d, indent=1)[:3000])
        return 0
    rep = worlds.replay([d["behaviour"]] * 8)
    for m in rep["mismatches"]:
        m.pop("behaviour", None)
    print(json.dumps(rep["mismatches"][:2], indent=1)[:4000])
    return 1 if rep["mismatches"] else 0


def fs_replay(ctx, thorough):
    """World W3f on the REAL FileSystem source and inotify watcher (hooks needed for synchronisation)."""
    import os
    if not vlib.hooks_present():
        ctx.cov["fs_replay"] = "skipped: hooks absent"
        return
    behs = []
    r, b = worlds.generate("W3f", 4, limit=(1200 if thorough else 120))
    ctx.add_tlc("Gen W3f: the diamond on a real file system (every edit notified by the watcher), length 4", r)
    behs += b
    r, b = worlds.generate("W3f", 7, simulate=(60 if thorough else 8), seed=ctx.seed, limit=(1500 if thorough else 150))
    ctx.add_tlc("Gen W3f: length 7, simulated", r)
    behs += b
    path = os.path.join(vlib.WORK, f"fsr-{os.getpid()}.ndjson")
    with open(path, "w") as f:
        for x in behs:
            f.write(json.dumps(x) + "\n")
    try:
        p = vlib.run_bin("amv", ["fs-replay", path, vlib.WORK], timeout=1500)
    finally:
        os.remove(path)
    why = vlib.died(p)
    if why:
        ctx.violation(f"{ctx.prop}/fs-crash", f"the process replaying on the real file system died ({why})", {"stderr": p.stderr[-1500:]})
        return
    rep = worlds.parse_report(p)
    for x in behs:
        ctx.case(x, nontrivial=any(s["step"].get("op") == "editn" for s in x[1:]))
    ctx.cov["traces_validated_against_impl"] += len(behs)
    ctx.cov["fs_replay"] = dict(behaviours=len(behs), steps=rep["checks"], mismatches=len(rep["mismatches"]))
    for m in rep["mismatches"]:
        beh = m.pop("behaviour", None)
        ctx.violation(f"{ctx.prop}/fs:{m.get('what', '?')[:60]}", "real FileSystem + watcher: " + str(m.get("what")), {"mismatch": m, "behaviour": beh})


def pass_binding_demo(ctx):
    """A corrupted bookkeeping trace (one `known` verdict flipped) must be rejected by Trace_Pass.tla."""
    import os
    if not vlib.hooks_present():
        return
    r, behs = worlds.generate("W3", 4, limit=300)
    dump = os.path.join(vlib.WORK, f"pass-demo-{os.getpid()}.ndjson")
    worlds.replay(behs, variants=["shared"], pass_dump=dump)
    import shutil
    shutil.copy(dump, dump + ".full")
    lines = [e for e in (json.loads(l) for l in open(dump)) if e["ev"] in worlds.PASS_EVENTS]
    os.remove(dump)
    for e in lines:
        if e["ev"] == "Event" and e["known"]:
            e["known"] = False
            break
    else:
        raise vlib.ToolError("binding demo: no known event in the recorded bookkeeping trace")
    with open(dump, "w") as f:
        for e in lines:
            f.write(json.dumps(e) + "\n")
    verdict, tr, detail = vlib.trace_check("Trace_Pass", "Trace_Pass.cfg", dump, name="pass-demo")
    os.remove(dump)
    if verdict in ("accepted", "error"):
        raise vlib.ToolError("binding demo: a bookkeeping trace with a flipped `known` verdict was not rejected")
    ctx.cov["binding_demos"].append({"corrupted_trace": "Event.known flipped in the reloader's bookkeeping events", "verdict": verdict})
    # the thread automaton: an answer given before the pass it stands for has ended must be rejected
    full = [json.loads(l) for l in open(dump + ".full")]
    os.remove(dump + ".full")
    for i in range(1, len(full)):
        if full[i]["ev"] == "Notify" and full[i - 1]["ev"] == "PassEnd":
            full[i - 1], full[i] = full[i], full[i - 1]
            break
    else:
        raise vlib.ToolError("binding demo: no PassEnd/Notify pair in the recorded thread trace")
    with open(dump, "w") as f:
        for e in full:
            f.write(json.dumps(e) + "\n")
    verdict, tr, detail = vlib.trace_check("Trace_Thread", "Trace_Thread.cfg", dump, name="thread-demo")
    os.remove(dump)
    if verdict in ("accepted", "error"):
        raise vlib.ToolError("binding demo: a thread trace whose answer precedes the end of its pass was not rejected")
    ctx.cov["binding_demos"].append({"corrupted_trace": "Notify moved before the PassEnd of the pass it answers", "verdict": verdict})
