"""C14  Dependencies are attributed to the asset being loaded, and only to it.

The recorder semantics (AMTypes.tla: RecAdd / RecNew / RecOff threaded through LoadKey) give,
for every registered asset, the exact dependency set; the replay compares it with what the real
reloader registered (hook `Graph`), at every quiescent point, for every asset, and compares the
reload id of every handle after single-entry edits (who reloads, who must not).  Worlds: W9
(no_record, load_owned, nested hot and non-hot loads), W3 (non-hot leaf under a hot compound),
W5 (directory loads), W7c (recording after failed and panicking nested loads).
"""
import vlib
import worlds
from checks import hotcommon

LEVEL = "model_checking"


def run(ctx):
    thorough = ctx.tier == "thorough"
    r = worlds.model_check("W9", 5 if thorough else 4, ["Converged", "NoUseAfterDrop"])
    ctx.add_tlc("AssetCache.tla on W9: Converged with the recorded dependency sets", r)
    if r.violated:
        ctx.violation("C14/spec-W9", f"specification violates {r.violated}", {"tlc": r.trace})
    sim = 2500 if thorough else 500
    suite = [("W9", 4, None, None), ("W9", 6, sim, None), ("W9b", 4, None, 6000), ("W9n", 5, None, None), ("W9o", 4, None, None), ("W9b", 6, sim, None), ("W3", 6, sim, None), ("W5", 6, sim, None),
             ("W7c", 6, sim, None), ("W7d", 6, sim, None)]
    if thorough:
        suite += [("W9", 5, None, 40000)]
    hotcommon.run_suite(ctx, suite, hotcommon.classify_other("C14"))
    rep = vlib.run_bin("amv", ["c14-extra", ctx.seed])
    rep = worlds.parse_report(rep)
    for m in rep["mismatches"]:
        ctx.violation("C14/extra:" + m.get("what", "?"), m.get("what"), {"mismatch": m})
    ctx.cov["helper_thread_and_second_cache_cases"] = rep["cases"]
    # binding demo: a corrupted expected dependency set must be reported
    r, behs = worlds.generate("W9", 3, limit=400)
    done = False
    for b in behs:
        for s in b[1:]:
            if isinstance(s["g"], list) and s["g"] and "deps" in s["g"][0] and s["g"][0]["deps"]:
                s["g"][0]["deps"] = s["g"][0]["deps"][1:]
                rep = worlds.replay([b], variants=["shared"])
                if not rep["mismatches"]:
                    raise vlib.ToolError("binding demo: a corrupted expected dependency set was not reported")
                ctx.cov["binding_demos"].append({"corrupted": "one dependency removed from the expected set", "verdict": "mismatch reported"})
                done = True
                break
        if done:
            break
    if not done:
        raise vlib.ToolError("binding demo: no behaviour with a registered asset")
    ctx.cov["rule"] = ("histories of W9/W3/W5/W7c; distinct by content; non-trivial = some reload happened or some call failed; the dependency "
                       "set of every registered asset is compared at every notify/sync step")
    ctx.assumptions += ["dependency sets are observed through the cfg-guarded Graph hook; without hooks only the end-to-end reload ids are compared"]


replay = hotcommon.replay_file
