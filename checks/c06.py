"""C06  Reloads are precise and every one is reported exactly once.

AssetCache.tla: `RidStep` (the reload id moves by exactly one, only on a rewrite) is checked
by TLC; the replay compares the reload id of EVERY cached handle (affected and unaffected)
after every step with the specification's, which decides precision (who is rewritten, how
often per pass); around every hot_reload a ReloadWatcher and reloaded_global of every handle
must report true exactly once iff the id grew; hook events place every source read of the
reloader thread inside a pass (never on its own).  Reloader.tla: each asset once per pass.
"""
import vlib
import worlds
from checks import hotcommon

LEVEL = "model_checking"


def run(ctx):
    thorough = ctx.tier == "thorough"
    n = 6 if thorough else 5
    r = worlds.model_check("W3", n, ["FreshEntryNever"], ["RidStep"])
    ctx.add_tlc(f"AssetCache.tla on W3, depth {n}: RidStep", r)
    if r.violated:
        ctx.violation("C06/spec-W3", f"specification violates {r.violated}", {"tlc": r.trace})
    import checks.reloader_mc as rmc
    rmc.run(ctx, thorough)
    r = vlib.tlc_expect_ok("Watcher6", "Watcher6.cfg", workers=4)
    ctx.add_tlc("Watcher6.tla: polling reader (watcher.reloaded(); read()) interleaved with rewrites", r)
    if r.violated:
        ctx.violation("C06/spec-watcher", f"Watcher6 violates {r.violated}", {"tlc": r.trace})
    r = vlib.tlc_expect_violation("Watcher6", "Watcher6_neg.cfg", workers=2)
    ctx.add_tlc("negative control: id bumped before the swap (must fail NewAfterReport)", r, negative=True)
    sim = 2500 if thorough else 500
    suite = [("W3", 4, None, 6000), ("W3", 7, sim, None), ("W6", 6, sim, None), ("W5", 6, sim // 2, None), ("W9", 5, sim // 2, None)]
    if thorough:
        suite += [("W3", 5, None, 40000)]
    hotcommon.run_suite(ctx, suite, hotcommon.classify_other("C06"))
    ctx.cov["rule"] = ("histories of worlds W3/W5/W6/W9 incl. un-notified edits and notifications of unknown or unrelated entries; "
                       "distinct by content; non-trivial = some reload happened or some call failed")
    ctx.assumptions += ["reload ids are read through the Debug form of ReloadId (opaque type)"]


replay = hotcommon.replay_file
