"""C06  Reloads are precise and every one is reported exactly once.

AssetCache.tla: `RidStep` (the reload id moves by exactly one, only on a rewrite) is checked
by TLC; the replay compares the reload id of EVERY cached handle (affected and unaffected)
after every step with the specification's, which decides precision (who is rewritten, how
often per pass); around every hot_reload a ReloadWatcher and reloaded_global of every handle
must report true exactly once iff the id grew; hook events place every source read of the
reloader thread inside a pass (never on its own).  Reloader.tla: each asset once per pass.
"""
import vlib
import worlds
from checks import hotcommon

LEVEL = "model_checking"


def run(ctx):
    thorough = ctx.tier == "thorough"
    n = 6 if thorough else 5
    r = worlds.model_check("W3", n, ["FreshEntryNever"], ["RidStep"])
    ctx.add_tlc(f"AssetCache.tla on W3, depth {n}: RidStep", r)
    if r.violated:
        ctx.violation("C06/spec-W3", f"specification violates {r.violated}", {"tlc": r.trace})
    import checks.reloader_mc as rmc
    rmc.run(ctx, thorough)
    r = vlib.tlc_expect_ok("Watcher6", "Watcher6.cfg", workers=4)
    ctx.add_tlc("Watcher6.tla: polling reader (watcher.reloaded(); read()) interleaved with rewrites", r)
    if r.violated:
        ctx.violation("C06/spec-watcher", f"Watcher6 violates {r.violated}", {"tlc": r.trace})
    r = vlib.tlc_expect_violation("Watcher6", "Watcher6_neg.cfg", workers=2)
    ctx.add_tlc("negative control: id bumped before the swap (must fail NewAfterReport)", r, negative=True)
    r = vlib.tlc_expect_violation("Watcher6", "Watcher6_twoloads.cfg", "ToldIffWrites", workers=2)
    ctx.add_tlc("negative control: reloaded() answers from one load of the id and remembers a second one (a rewrite in between is never reported)", r, negative=True)
    sim = 2500 if thorough else 350
    suite = [("W3", 4, None, 6000), ("W4e", 6, None, None, "KeepTwoPasses"), ("W3s", 5, None, 1200, "KeepBatch2"), ("W3", 7, sim, None), ("W4", 5, None, 5000), ("W4", 7, sim, None), ("W4r", 7, None, 6000, "KeepTwoPasses"), ("W4t", 6, None, 6000, "KeepStatic"), ("W4y", 7, None, 6000, "KeepReReg"), ("W8", 5, None, 8000, "KeepEnh"), ("W6", 6, sim, None),
             ("W5", 6, sim // 2, None), ("W9", 5, sim // 2, None)]
    if thorough:
        suite += [("W3", 5, None, 40000), ("W4e", 7, None, 4000, "KeepTwoPasses")]
    hotcommon.run_suite(ctx, suite, hotcommon.classify_other("C06"))
    hotcommon.pass_binding_demo(ctx)
    # precision across caches and threads: an entry read through ANOTHER cache (or on a helper thread) is not a
    # dependency, even when this cache has an asset with the same id and type
    rep = worlds.parse_report(vlib.run_bin("amv", ["c14-extra", ctx.seed]))
    ctx.cov["cross_cache_cases"] = rep["cases"]
    for m in rep["mismatches"]:
        ctx.violation("C06/cross-cache:" + str(m.get("what", "?"))[:60], m.get("what"), {"mismatch": m})
    # a polling reader against the reloader: the id and the value change together (guards log both)
    import os
    import checks.c07 as c07
    for mode in ("local", "static"):
        out = os.path.join(vlib.WORK, f"c06-poll-{mode}-{os.getpid()}.ndjson")
        rep = worlds.parse_report(vlib.run_bin("amv", ["c07-stress", out, ctx.seed, 120 if thorough else 60, mode], timeout=300))
        verdict, tr, detail = vlib.trace_check("Trace_RwGuard", f"Trace_RwGuard_{mode}.cfg", out, name=f"c06-poll-{mode}")
        if verdict == "error":
            raise vlib.ToolError(f"trace validation failed to run: {detail}")
        if rep.get("missed_reports", 0) > 0:
            ctx.violation(f"C06/watcher-missed:{mode}", f"{rep['missed_reports']} polls of a ReloadWatcher answered false although the asset had been rewritten since its last true "
                          f"({rep.get('watcher_polls')} polls by 3 threads against {rep.get('writes')} rewrites)", dict(mode=mode))
        if verdict != "accepted" or rep["torn"]:
            keep = out + ".rejected"
            os.replace(out, keep)
            ctx.violation(f"C06/poll:{mode}", "a reader saw the reload id and the value out of step (the id is not published together with the value)",
                          dict(mode=mode, trace_file=keep, tlc=detail))
        else:
            ctx.cov["traces_validated_against_impl"] += 1
            os.remove(out)
    ctx.cov["rule"] = ("histories of worlds W3/W4/W5/W6/W9 incl. un-notified edits and notifications of unknown or unrelated entries; "
                       "distinct by content; non-trivial = some reload happened or some call failed")
    ctx.assumptions += ["reload ids are read through the Debug form of ReloadId (opaque type)"]


replay = hotcommon.replay_file
