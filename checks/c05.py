"""C05  Hot-reloading converges: cached values follow the source, transitively.

AssetCache.tla: `Converged` (cached value = Fresh(k) whenever the reloader is quiet and no
entry k depends on is pending) is checked by TLC on the diamond, indirection and directory
worlds; `ConvergedStrict` (without the d8 guard) is the negative control that exhibits D8.
Reloader.tla checks the as-built DFS order against OrderOK on every graph of <= 4 nodes.
Every generated history (edits, batches with duplicates/noise, break/repair, rewiring, dir
changes; hot_reload mode and enhance mode) is replayed on the real crate with values, reload
ids and the registered dependency sets compared after every step.
"""
import vlib
import worlds
from checks import hotcommon

LEVEL = "model_checking"


def run(ctx):
    thorough = ctx.tier == "thorough"
    n = 6 if thorough else 5
    for w in ("W3", "W5"):
        r = worlds.model_check(w, n, ["Converged"])
        ctx.add_tlc(f"AssetCache.tla on {w}, depth {n}: Converged", r)
        if r.violated:
            ctx.violation(f"C05/spec-{w}", f"specification violates {r.violated}", {"tlc": r.trace})
    r = worlds.model_check("W4", n + 1, ["Converged"])
    ctx.add_tlc(f"AssetCache.tla on W4 (rewiring), depth {n + 1}: Converged (order-dependent passes excluded)", r)
    if r.violated:
        ctx.violation("C05/spec-W4", f"specification violates {r.violated}", {"tlc": r.trace})
    worlds.ORDER_FIRST = "FALSE"
    try:
        r = worlds.model_check("W4", n + 1, ["ConvergedStrict"])
    finally:
        worlds.ORDER_FIRST = "TRUE"
    if not r.violated:
        raise vlib.ToolError("negative control: ConvergedStrict holds on W4, the model cannot see the D8 shape")
    ctx.add_tlc("negative control: ConvergedStrict on W4 (must fail: D8)", r, negative=True)
    import checks.reloader_mc as rmc
    rmc.run(ctx, thorough)
    # the asynchronous part: edits, sends and calls racing with the select loop (liveness under fairness)
    for cfg, label in [("EventFlow_local.cfg", "hot_reload mode"), ("EventFlow_static.cfg", "enhance mode")]:
        r = vlib.tlc_expect_ok("EventFlow", cfg, workers=4)
        ctx.add_tlc(f"EventFlow.tla {label}: ReturnAppliesDequeued, Monotone; AllDequeued, EventuallyApplied under fairness", r)
        if r.violated:
            ctx.violation("C05/spec-eventflow", f"EventFlow.tla violates {r.violated} ({cfg})", {"tlc": r.trace})
    r = vlib.tlc_expect_ok("DrainOrder", "DrainOrder.cfg", workers=4)
    ctx.add_tlc("DrainOrder.tla: cache messages drained before every event => a notification sent after load() returned is never dropped", r)
    if r.violated:
        ctx.violation("C05/spec-drainorder", f"DrainOrder.tla violates {r.violated}", {"tlc": r.trace})
    r = vlib.tlc_expect_violation("DrainOrder", "DrainOrder_neg.cfg", "NoLostNotification", workers=2)
    ctx.add_tlc("negative control: drain only when the select reported cache messages (an event overtakes its AddAsset)", r, negative=True)
    r = vlib.tlc_expect_violation("EventFlow", "EventFlow_race.cfg", workers=2)
    ctx.add_tlc("negative control / documentation: 'sent before the call' is weaker than 'dequeued' (SentThenCallApplies must fail)", r, negative=True)

    sim = 2500 if thorough else 500
    suite = [("W3", 4, None, 6000), ("W3s", 5, None, 1200, "KeepBatch2"), ("W4e", 6, None, None, "KeepTwoPasses"), ("W4", 4, None, 6000), ("W4r", 7, None, 6000, "KeepTwoPasses"), ("W4n", 7, None, 6000, "KeepTwoPasses"), ("W9n", 5, None, None), ("W4x", 7, None, 6000, "KeepReReg"), ("W4s", 6, None, 6000, "KeepStatic"), ("W8", 4, None, None), ("W8", 5, None, 8000, "KeepEnh"), ("W9o", 4, None, None), ("W3", 7, sim, None), ("W4", 7, sim, None), ("W5", 6, sim, None),
             ("W8", 6, 200 if thorough else 60, None), ("W7c", 6, sim // 2, None)]
    if thorough:
        suite += [("W3", 5, None, 40000), ("W4", 5, None, 40000), ("W5", 4, None, 30000)]
    hotcommon.run_suite(ctx, suite, hotcommon.classify_c05)
    # the recorded finding, exhibited: every shortest history with the D8 shape, each on several fresh
    # caches (the outcome depends on the per-cache hash seed)
    r, behs = worlds.generate("W4d", 6)
    flagged = [b for b in behs if any(s.get("d8") for s in b[1:])]
    ctx.add_tlc("Gen W4d: all histories of length 6 around a re-wiring batch", r)
    if flagged:
        rep = worlds.replay(flagged * 6, variants=["shared"])
        ctx.cov["d8_shape_histories"] = len(flagged)
        ctx.cov["d8_shape_runs_stale"] = len(rep["mismatches"])
        for m in rep["mismatches"]:
            beh = m.pop("behaviour", None)
            ctx.violation(hotcommon.classify_c05(m) or "C05/W4d:" + m.get("what", "?"), m.get("what"), {"mismatch": m, "behaviour": beh})
    # random larger dependency DAGs (10-12 compounds over 6 leaves), several per run
    for k in range(6 if thorough else 2):
        mod, clean = worlds.random_world(ctx.seed * 100 + k, 10 + (k % 3))
        try:
            r, behs = worlds.generate("WR", 9, simulate=(600 if thorough else 250), seed=ctx.seed + k, module=mod, keep="KeepReloaded", limit=4000)
        finally:
            clean()
        ctx.add_tlc(f"Gen WR#{k}: random DAG of {10 + (k % 3)} compounds, simulated histories of length 9 in which a reload happened", r)
        if behs:
            rep = worlds.replay(behs)
            for b in behs:
                ctx.case(b)
            ctx.cov["traces_validated_against_impl"] += 2 * len(behs)
            ctx.cov.setdefault("random_dags", []).append(dict(index=k, behaviours=len(behs), mismatches=len(rep["mismatches"])))
            for m in rep["mismatches"]:
                beh = m.pop("behaviour", None)
                ctx.violation(hotcommon.classify_c05(m) or f"C05/WR:{m.get('what', '?')}", f"{m.get('what')} (random DAG, front {m.get('front')}, step {m.get('step')})",
                              {"mismatch": m, "behaviour": beh})
    # bursts: events arrive while the reloader is busy and while callers register new assets; the thread's hook events
    # must still be a run of Trace_Thread.tla (cache messages are drained before EVERY batch of events)
    import os
    import checks.c08 as c08
    if vlib.hooks_present():
        for mode in ("plain", "cycle"):
            res = c08.stress(ctx, mode, ctx.seed, 2, 120)
            if res is None:
                continue
            out, rep = res
            th = out + ".thread"
            verdict, tr, detail = vlib.trace_check("Trace_Thread", "Trace_Thread.cfg", th, name=f"c05-burst-{mode}", timeout=900, xmx="6g")
            if verdict == "error":
                raise vlib.ToolError(f"Trace_Thread validation failed to run: {detail}")
            if verdict != "accepted":
                keep = th + ".rejected"
                os.replace(th, keep)
                ctx.violation(f"C05/burst-thread-trace:{mode}", f"under bursts of events the reloader thread's hook events are not a run of Trace_Thread.tla ({verdict}: {detail[:300]})",
                              dict(mode=mode, trace_file=keep))
            else:
                ctx.cov["traces_validated_against_impl"] += 1
                os.remove(th)
            os.remove(out)
    hotcommon.fs_replay(ctx, thorough)
    worlds.binding_demo(ctx, "W3", 2)
    ctx.cov["rule"] = ("histories generated by TLC from AssetCache.tla over worlds W3 (diamond), W4 (indirection/rewiring), W5 (directories), "
                       "W8 (enhance mode), W7c (failing and recovering reloads); distinct by content; non-trivial = some reload happened or some call failed")
    ctx.assumptions += ["'notified' = dequeued by the reloader (DESIGN.md section 2): the client synchronises on the hook-observed EventsEnd before hot_reload",
                        "values observed under no_record, or with a fault armed over unordered reloads, are order-dependent by design and only their presence is compared (spec flag od)",
                        "in-memory source; the real FileSystem source and watcher are C12's/C15's"]


replay = hotcommon.replay_file
