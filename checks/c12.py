"""C12  Filesystem notifications name the right entries (inverse of path_of).

Watcher.tla: paths as component sequences (names, '.', '..'), PathOf / IdOfPath and the
notification table; TLC checks RoundTrip (over every spelling of the reported path), Injective and
TableExact for every entry to depth 3 x every notification kind; the as-built root / rename /
remove handling are negative controls (D6, D10, D11).  Each (entry, kind, spelling) case is
materialised in a temporary directory and fed, as a synthetic notify event, to the REAL id_of_path
and the REAL event handler (re-exported under cfg(assets_manager_verif)) bound to a test channel,
with one and with two roots; paths outside every root or not expressible as an id must produce no
event and leave the handler alive.  Real create / modify / rename / move-in / delete histories go
through the real RecommendedWatcher (inotify).
"""
import json
import os

import vlib
import worlds

LEVEL = "model_checking"


def run(ctx):
    thorough = ctx.tier == "thorough"
    r = vlib.tlc_expect_ok("Watcher", "Watcher_fixed.cfg", workers=4)
    ctx.add_tlc("Watcher.tla: RoundTrip, Injective, TableExact for every entry to depth 3 x kind", r)
    if r.violated:
        ctx.violation("C12/spec", f"Watcher.tla violates {r.violated}", {"tlc": r.trace})
    for cfg, what in [("Watcher_d6.cfg", "root directory never named (D6)"), ("Watcher_d10.cfg", "rename names only the path (D10)"),
                      ("Watcher_d11.cfg", "removal names only the parent (D11)")]:
        r = vlib.tlc_expect_violation("Watcher", cfg, workers=2)
        ctx.add_tlc(f"negative control: {what}", r, negative=True)
    # the id builder lives across notifications: the answer for a path must not depend on the paths converted before
    r = vlib.tlc_expect_ok("WatcherSeq", "WatcherSeq.cfg", workers=2)
    ctx.add_tlc("WatcherSeq.tla: one id builder across notifications (HistoryFree, PopToRootWorks), every path of <= 3 components", r)
    if r.violated:
        ctx.violation("C12/spec-seq", f"WatcherSeq.tla violates {r.violated}", {"tlc": r.trace})
    for cfg, what in [("WatcherSeq_noreset.cfg", "the builder is reset only after a successful conversion (must fail HistoryFree)"),
                      ("WatcherSeq_pop.cfg", "pop() of the only segment fails (must fail PopToRootWorks)")]:
        r = vlib.tlc_expect_violation("WatcherSeq", cfg, workers=2)
        ctx.add_tlc(f"negative control: {what}", r, negative=True)
    if not vlib.hooks_present():
        ctx.cov["note"] = "hooks absent: the private watcher pieces cannot be reached; only the specification was checked"
        ctx.cov["rule"] = "no implementation case could be run without the hook re-exports"
        return
    r = vlib.tlc_expect_ok("Gen_Watcher", "Gen_Watcher.cfg", workers=1)
    cases = vlib.parse_prints(r, "REPLAY")
    ctx.add_tlc("Gen_Watcher: (entry, kind) x spellings with the entries the specification names", r)
    if not thorough:
        cases = cases[::2]
    path = os.path.join(vlib.WORK, f"watch-cases-{os.getpid()}.ndjson")
    with open(path, "w") as f:
        for c in cases:
            f.write(json.dumps(c) + "\n")
    try:
        rep = worlds.parse_report(vlib.run_bin("amv", ["watch-replay", path, vlib.WORK], timeout=900))
    finally:
        os.remove(path)
    for c in cases:
        ctx.case(dict(entry=c["entry"], kind=c["kind"]), nontrivial=True)
    ctx.sample({"entry": cases[len(cases) // 2]["entry"], "kind": cases[len(cases) // 2]["kind"], "spellings": len(cases[len(cases) // 2]["cases"])})
    ctx.cov["traces_validated_against_impl"] = rep["checks"]
    ctx.cov["exhaustive"] = thorough
    for m in rep["mismatches"]:
        ctx.violation(f"C12/{m.get('what', '?')[:50]}:{m.get('kind', '')}", m.get("what"), {"mismatch": m})
    # WatcherSeq.tla -> code: every history of two notifications (thorough: also random ones of four) through one real handler
    for (cfgname, k, sim) in [("Gen_WatcherSeq.cfg", 2, None)] + ([("Gen_WatcherSeq.cfg", 4, 20000)] if thorough else []):
        cfgp = os.path.join(vlib.SPEC, f"Gen_WatcherSeq_{k}_{os.getpid()}.cfg")
        with open(cfgp, "w") as f:
            f.write(open(os.path.join(vlib.SPEC, cfgname)).read().replace("K = 2", f"K = {k}"))
        try:
            r = vlib.tlc_expect_ok("Gen_WatcherSeq", os.path.basename(cfgp), workers=1, simulate=sim, depth=(k + 1 if sim else None),
                                   seed=(ctx.seed if sim else None), timeout=900, name=f"gen-watchseq-{k}")
        finally:
            os.remove(cfgp)
        hists = vlib.parse_prints(r, "REPLAY")
        ctx.add_tlc(f"Gen_WatcherSeq: histories of {k} notifications" + (f" (simulate num={sim})" if sim else " (exhaustive)"), r)
        if not hists:
            raise vlib.ToolError("Gen_WatcherSeq produced no history")
        path = os.path.join(vlib.WORK, f"watchseq-{os.getpid()}.ndjson")
        with open(path, "w") as f:
            for h in hists:
                f.write(json.dumps(h) + "\n")
        try:
            rep = worlds.parse_report(vlib.run_bin("amv", ["watchseq-replay", path, vlib.WORK], timeout=900))
        finally:
            os.remove(path)
        ctx.cov["notification_histories_replayed"] = ctx.cov.get("notification_histories_replayed", 0) + rep["cases"]
        ctx.cov["traces_validated_against_impl"] += rep["cases"]
        for m in rep["mismatches"][:20]:
            ctx.violation(f"C12/seq:{m.get('path', '?')[-40:]}", m.get("what"), {"mismatch": m})
    rep = worlds.parse_report(vlib.run_bin("amv", ["watch-real", vlib.WORK], timeout=300))
    ctx.cov["real_inotify_steps"] = rep["cases"]
    for m in rep["mismatches"]:
        ctx.violation(f"C12/real:{m.get('what', '?')[:60]}", m.get("what"), {"mismatch": m})
    # the watcher inside a real cache: every edit on disk must be named so that the cache follows it
    from checks import hotcommon
    hotcommon.fs_replay(ctx, thorough)
    ctx.cov["rule"] = ("cases = (entry, notification kind) pairs, each with every spelling of its path ('.', 'x/..' inserted), one and two roots; "
                       "distinct by content; all non-trivial")
    ctx.assumptions += ["synthetic notify::Event values stand for what the OS reports; the real-watcher histories check the required entries as a subset "
                        "(inotify may report more)", "names without dots; entries to depth 3"]


def replay(ctx, path):
    print(open(path).read()[:3000])
    return 0
