"""C03  A load returns what the source holds: extension order, defaults, errors.

spec/LoadFold.tla states the law of load_from_source / ErrorKind::or declaratively and TLC
checks it against the interpreter of AMTypes.tla over every (leaf type, contents) assignment.
World W2 then enumerates every content of every extension (present / absent / unreadable with
three io kinds / undecodable) for leaf types with 0-3 extensions, with and without default,
and compounds nesting them to depth 2; W2b enumerates break/repair edit orders.  Each behaviour
is replayed on the real crate: result, error id chain, error class and surviving extension.
"""
import vlib
import worlds

LEVEL = "model_checking"


def run(ctx):
    thorough = ctx.tier == "thorough"
    r = vlib.tlc_expect_ok("LoadFold", "LoadFold.cfg", workers=4)
    ctx.add_tlc("LoadFold.tla: declarative law vs interpreter, all (type, contents)", r)
    if r.violated:
        ctx.violation("C03/spec", f"LoadFold violates {r.violated}", {"tlc": r.trace})
    suite = [("W2", 1, None, None), ("W2b", 3, None, None)]
    if thorough:
        suite += [("W2b", 4, None, 60000), ("W2", 2, None, 40000)]
    worlds.run_suite(ctx, suite, nontrivial=lambda b: True)
    worlds.binding_demo(ctx, "W2b", 2)
    rep = vlib.run_bin("amv", ["bytes-fidelity", ctx.seed, 2000 if thorough else 300])
    rep = worlds.parse_report(rep)
    ctx.cov["byte_fidelity_cases"] = rep["cases"]
    for m in rep["mismatches"]:
        ctx.violation("C03/bytes:" + m.get("what", "?"), m.get("what", "bytes differ"), {"mismatch": m})
    # the same law with real file-system entries as statuses (symlink loop = I/O error other than not-found)
    rep = worlds.parse_report(vlib.run_bin("amv", ["c03-fs", vlib.WORK]))
    ctx.cov["real_fs_status_pairs"] = rep["cases"]
    for m in rep["mismatches"]:
        ctx.violation(f"C03/fs:{m.get('x')}-{m.get('y')}", m.get("what"), {"mismatch": m})
    ctx.cov["exhaustive"] = True
    ctx.cov["rule"] = ("W2: every assignment of {absent, ok, bad, io denied/other/notfound} to the extensions x,y,z and {absent, ok, bad} "
                       "to the empty extension (1296 sources) x load/load_owned of 9 keys; distinct by content; all non-trivial")
    ctx.assumptions += ["contents are opaque tokens in the specification; byte fidelity is exercised by concretisation "
                        "(amv bytes-fidelity: empty, 1 MiB, non-UTF-8, whitespace; Slice/Buffer/Owned; the crate's own loaders)"]


def replay(ctx, path):
    import json
    d = json.load(open(path))
    rep = worlds.replay([d["behaviour"]]) if d.get("behaviour") else {"mismatches": []}
    print(json.dumps(rep["mismatches"], indent=1)[:4000])
    return 1 if rep["mismatches"] else 0
