"""C15  The reloader is quiet when idle and goes away with its cache.

Lifecycle.tla models the message loop of the hot-reloading thread with the lifetimes of its two
channels: `Select` is enabled only when a selected channel is non-empty or disconnected (otherwise
the thread is blocked).  TLC checks NoSpin (never twice round the loop without consuming),
BlockedWhenIdle, NoOrphanRequest and, under fairness, GoesAway and AllAnswered, for every order of
create / use / drop-cache / drop-sender; the as-built exits are the negative controls (D4, D12).
The real crate is observed in a child process: hook events (Select, Msg*, Events, Exit, sends and
drops logged before they happen) are validated against Lifecycle.tla, and /proc gives the CPU time
of the reloader thread over an idle window and its existence 300 ms and 1 s after the drop, for the
in-memory source (which keeps its EventSender) and the real FileSystem source with its watcher.
"""
import json
import os
import subprocess

import vlib

LEVEL = "model_checking"


def life(ctx, kind, seed, rounds):
    out = os.path.join(vlib.WORK, f"c15-{kind}-{seed}-{os.getpid()}.ndjson")
    bindir = vlib.build_harness()
    env = dict(os.environ, AMV_WORK=vlib.WORK)
    try:
        p = subprocess.run([os.path.join(bindir, "amv"), "c15-life", out, str(seed), kind, str(rounds)], env=env,
                           stdout=subprocess.PIPE, stderr=subprocess.PIPE, text=True, timeout=300, cwd=vlib.WORK)
    except subprocess.TimeoutExpired:
        ctx.violation(f"C15/timeout:{kind}", "create/use/drop rounds did not finish in 300 s", dict(kind=kind, seed=seed))
        return None
    rep = None
    for line in p.stdout.splitlines():
        if line.startswith("REPORT "):
            rep = json.loads(line[7:])
    if p.returncode != 0 or rep is None:
        raise vlib.ToolError(f"c15-life {kind} failed rc={p.returncode}: {p.stderr[-1500:]}")
    return out, rep


def run(ctx):
    thorough = ctx.tier == "thorough"
    r = vlib.tlc_expect_ok("Lifecycle", "Lifecycle_fixed.cfg", workers=4)
    ctx.add_tlc("Lifecycle.tla: NoSpin, BlockedWhenIdle, NoOrphanRequest; GoesAway, AllAnswered under fairness", r)
    if r.violated:
        ctx.violation("C15/spec", f"Lifecycle.tla violates {r.violated}", {"tlc": r.trace})
    r = vlib.tlc_expect_ok("DropOrder", "DropOrder.cfg", workers=4)
    ctx.add_tlc("DropOrder.tla: the reloader is dropped before the source, a source that waits for its channel to close lets drop(cache) return", r)
    if r.violated:
        ctx.violation("C15/spec-droporder", f"DropOrder.tla violates {r.violated}", {"tlc": r.trace})
    r = vlib.tlc_expect_violation("DropOrder", "DropOrder_srcfirst.cfg", "DropReturns", workers=2)
    ctx.add_tlc("negative control: the source is dropped before the reloader (drop(cache) never returns)", r, negative=True)
    r = vlib.tlc_expect_violation("Lifecycle", "Lifecycle_d4.cfg", "NoSpin", workers=2)
    ctx.add_tlc("negative control: disconnected cache_msg only ends the drain loop (must spin: D4)", r, negative=True)
    r = vlib.tlc_expect_violation("Lifecycle", "Lifecycle_d12.cfg", "NoOrphanRequest", workers=2)
    ctx.add_tlc("negative control: exit on a disconnected event channel (must orphan a request: D12)", r, negative=True)

    rounds = 15 if thorough else 5
    validated = 0
    seen_alive = False
    for kind in ("mem", "fs"):
        for sd in range(ctx.seed, ctx.seed + (3 if thorough else 1)):
            res = life(ctx, kind, sd, rounds)
            if res is None:
                continue
            out, rep = res
            for rd in rep["rounds"]:
                ctx.case(dict(kind=kind, seed=sd, **rd))
                sc = dict(kind=kind, seed=sd, round=rd)
                if rd["idle_ticks"] is not None:
                    if rd["threads_while_alive"] < 1:
                        raise vlib.ToolError("the reloader thread was not found under /proc while its cache was alive")
                    seen_alive = True
                    if rd["idle_ticks"] > 1:
                        ctx.violation(f"C15/idle-cpu:{kind}", f"the reloader used {rd['idle_ticks']} CPU ticks in a 1 s idle window", sc)
                if rd.get("ticks_after_sender_dropped") is not None and rd["ticks_after_sender_dropped"] > 2:
                    ctx.violation(f"C15/spin-sender-dropped:{kind}", f"the reloader used {rd['ticks_after_sender_dropped']} CPU ticks in 0.6 s of idleness after the "
                                  "source dropped its EventSender (the cache is alive, nothing changes)", sc)
                if rd["cpu_ticks_after_drop"] > 1:
                    ctx.violation(f"C15/spin-after-drop:{kind}:{rd['shape']}",
                                  f"reloader threads burnt {rd['cpu_ticks_after_drop']} CPU ticks in 0.7 s after the cache was dropped ({rd['shape']})", sc)
                if rd["threads_1s"] > rd["threads_before"] and any(s not in ("S", "D") for s in rd["states_1s"]):
                    ctx.violation(f"C15/alive-after-drop:{kind}:{rd['shape']}",
                                  f"a reloader thread is still runnable 1 s after its cache was dropped ({rd['shape']})", sc)
                if kind == "mem" and rd["threads_1s"] > rd["threads_before"]:
                    ctx.violation(f"C15/not-exited:{kind}:{rd['shape']}",
                                  f"{rd['threads_1s']} reloader thread(s) still exist 1 s after the cache was dropped ({rd['shape']})", sc)
            if rep.get("watcher_threads_left", 0) > 0:
                ctx.violation(f"C15/watchers-left:{kind}", f"{rep['watcher_threads_left']} file-watcher thread(s) of dropped caches still exist after further "
                              "file events under the root", dict(kind=kind, seed=sd))
            if rep.get("threads_left_after_streams", 0) > 0:
                ctx.violation(f"C15/alive-under-stream:{kind}", f"{rep['threads_left_after_streams']} reloader thread(s) of dropped caches are still there 0.7 s after the drop "
                              "while notifications about a loaded asset keep arriving every 2 ms", dict(kind=kind, seed=sd))
            if rep.get("join_source_blocked", 0) > 0:
                ctx.violation(f"C15/source-dropped-before-reloader:{kind}", f"{rep['join_source_blocked']} of 3 caches dropped their source while the reloader still "
                              "held its event channel: a source that waits for that channel to close in its destructor blocks drop(cache) (3 s limit reached)",
                              dict(kind=kind, seed=sd, waits_ms=rep.get("join_source_waits_ms")))
            if rep.get("watcher_threads_dotted", 0) > 0:
                ctx.violation(f"C15/watchers-left-dotted:{kind}", f"{rep['watcher_threads_dotted']} file-watcher thread(s) of dropped caches survive modifications "
                              "of entries that have no asset id (dotted names)", dict(kind=kind, seed=sd))
            last = rep["rounds"][-1]
            if last["threads_1s"] > 1:
                ctx.violation(f"C15/accumulate:{kind}", f"{last['threads_1s']} reloader threads exist after {rounds} create/drop rounds",
                              dict(kind=kind, seed=sd))
            if kind == "mem" and vlib.hooks_present():
                verdict, tr, detail = vlib.trace_check("Trace_Life", "Trace_Life.cfg", out, name=f"c15-{kind}-{sd}")
                if verdict == "error":
                    raise vlib.ToolError(f"trace validation failed to run: {detail}")
                if verdict != "accepted":
                    ctx.violation(f"C15/trace:{kind}", f"the recorded loop events are not a behaviour of Lifecycle.tla ({verdict}: {detail})",
                                  dict(kind=kind, seed=sd, trace_file=out))
                else:
                    validated += rounds
                    with open(out) as f:
                        ctx.sample({"kind": kind, "trace_head": [json.loads(x)["ev"] for x in f.read().splitlines()[:16]]})
                    os.remove(out)
            elif os.path.exists(out):
                os.remove(out)
    if not seen_alive:
        raise vlib.ToolError("no idle window was measured")
    ctx.cov["traces_validated_against_impl"] = validated
    # binding demo: a Select with no cause (a polling loop) must be rejected
    demo = os.path.join(vlib.WORK, f"c15-demo-{os.getpid()}.ndjson")
    with open(demo, "w") as f:
        for e in [{"ev": "Reset"}, {"ev": "SendAdd"}, {"ev": "Select", "ready": 0}, {"ev": "MsgAddAsset"}, {"ev": "Select", "ready": 0}]:
            f.write(json.dumps(e) + "\n")
    verdict, tr, detail = vlib.trace_check("Trace_Life", "Trace_Life.cfg", demo, name="c15-demo")
    os.remove(demo)
    if verdict in ("accepted", "error"):
        raise vlib.ToolError("binding demo: a wake-up of the select without any cause was not rejected")
    ctx.cov["binding_demos"].append({"corrupted_trace": "Select with every channel connected and empty", "verdict": verdict})
    ctx.cov["rule"] = ("cases = create/use/drop rounds x shape {idle, after_hot_reload, events_queued, loads_finished, sender_dropped} x source kind "
                       "{in-memory keeping its sender, FileSystem + inotify watcher}; distinct by measured content; all non-trivial")
    ctx.assumptions += ["CPU time is a measurement: <= 1 tick (10 ms) per window is 'none'", "thread identity by name assets_hot_relo* under /proc/self/task"]


def replay(ctx, path):
    print(open(path).read()[:3000])
    return 0
