"""CacheRace.tla model checking and trace validation of concurrent runs (C01, C13)."""
import json
import os

import vlib
import worlds


def model(ctx, thorough, props):
    cfg = "MC_CacheRace_t3k2.cfg" if thorough else "MC_CacheRace_t3k1.cfg"
    r = vlib.tlc_expect_ok("MC_CacheRace", cfg, workers=8, timeout=1500)
    ctx.add_tlc(f"CacheRace.tla ({cfg}): 3 threads x 2 calls, every interleaving of look-up / produce / insert", r)
    if r.violated:
        ctx.violation(f"{ctx.prop}/spec-race", f"CacheRace.tla violates {r.violated}", {"tlc": r.trace})
    r = vlib.tlc_expect_violation("MC_CacheRace", "MC_CacheRace_neg.cfg", workers=2)
    ctx.add_tlc("negative control: insert replaces instead of or_insert (must fail StableHandle)", r, negative=True)


def traces(ctx, thorough, features_list=((),)):
    rounds = 500 if thorough else 200
    total = 0
    for feats in features_list:
        for sd in range(ctx.seed, ctx.seed + (3 if thorough else 2)):
            out = os.path.join(vlib.WORK, f"race-{sd}-{os.getpid()}.ndjson")
            p = vlib.run_bin("amv", ["race-stress", out, sd, rounds], features=feats, timeout=600)
            why = vlib.died(p)
            if why:
                ctx.violation(f"{ctx.prop}/race-crash", f"the process running concurrent calls on one cache died ({why})",
                              dict(seed=sd, rounds=rounds, features=list(feats), stderr=p.stderr[-1500:]))
                continue
            rep = worlds.parse_report(p)
            ctx.case(dict(seed=sd, features=list(feats), **rep))
            ctx.cov.setdefault("race_runs", []).append(dict(seed=sd, features=list(feats), **rep))
            verdict, tr, detail = vlib.trace_check("Trace_CacheRace", "Trace_CacheRace.cfg", out, name=f"race-{sd}", timeout=900)
            if verdict == "error":
                raise vlib.ToolError(f"trace validation failed to run: {detail}")
            if verdict != "accepted":
                keep = out + ".rejected"
                os.replace(out, keep)
                ctx.violation(f"{ctx.prop}/race-trace", f"concurrent calls on the real cache are not a behaviour of CacheRace.tla ({verdict}: {detail})",
                              dict(seed=sd, rounds=rounds, features=list(feats), trace_file=keep, tlc=detail))
            else:
                total += rounds
                with open(out) as f:
                    ctx.sample({"trace_head": [json.loads(x) for x in f.read().splitlines()[:12]]})
                os.remove(out)
    ctx.cov["traces_validated_against_impl"] += total
    # binding demo: two different tokens handed out for one key must be rejected
    demo = os.path.join(vlib.WORK, f"race-demo-{os.getpid()}.ndjson")
    evs = [{"ev": "Reset"}, {"ev": "Begin", "th": "t1", "op": "load", "key": "a", "tok": 0}, {"ev": "Begin", "th": "t2", "op": "load", "key": "a", "tok": 0},
           {"ev": "Produce", "th": "t1", "tok": 1}, {"ev": "Produce", "th": "t2", "tok": 2},
           {"ev": "Insert", "th": "t1", "key": "a", "won": True}, {"ev": "Insert", "th": "t2", "key": "a", "won": False},
           {"ev": "End", "th": "t1", "tok": 1, "ptr": 100}, {"ev": "End", "th": "t2", "tok": 2, "ptr": 200}]
    with open(demo, "w") as f:
        for e in evs:
            f.write(json.dumps(e) + "\n")
    verdict, tr, detail = vlib.trace_check("Trace_CacheRace", "Trace_CacheRace.cfg", demo, name="race-demo")
    os.remove(demo)
    if verdict in ("accepted", "error"):
        raise vlib.ToolError("binding demo: a racer that keeps its own (losing) value was not rejected")
    ctx.cov["binding_demos"].append({"corrupted_trace": "the loser of an insertion race returns its own value", "verdict": verdict})
