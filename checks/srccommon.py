"""Sources.tla: model checking and case generation shared by C04 and C11."""
import json
import os

import vlib
import worlds


def model(ctx, thorough):
    cfg = "Sources_fixed4.cfg" if thorough else "Sources_fixed3.cfg"
    r = vlib.tlc_expect_ok("Sources", cfg, workers=8, timeout=1500)
    ctx.add_tlc(f"Sources.tla ({cfg}): every tree, every explicit-member subset, every member order", r)
    if r.violated:
        ctx.violation(f"{ctx.prop}/spec-sources", f"Sources.tla violates {r.violated}", {"tlc": r.trace})
    r = vlib.tlc_expect_violation("Sources", "Sources_asbuilt.cfg", workers=2)
    ctx.add_tlc("negative control: only the immediate parent of a member is registered (must fail: D5)", r, negative=True)


def cases(ctx, nodes, limit, simulate=None):
    cfg = f"Gen_Sources_{nodes}_{os.getpid()}.cfg"
    with open(os.path.join(vlib.SPEC, cfg), "w") as f:
        f.write(f"""SPECIFICATION Spec
CONSTANTS
  Names = {{"p", "q"}}
  ExtsU = {{"", "x", "y"}}
  MaxDepth = 2
  MaxNodes = {nodes}
  FixArchiveAncestors = TRUE
  DirLists = {{{{"x"}}, {{"x", "y"}}, {{""}}, {{}}}}
INVARIANT Emit
CHECK_DEADLOCK FALSE
""")
    try:
        r = vlib.tlc_expect_ok("Gen_Sources", cfg, workers=1, simulate=simulate, depth=(2 * nodes + 3 if simulate else None),
                               seed=(ctx.seed if simulate else None), timeout=1200, xmx="8g")
    finally:
        os.remove(os.path.join(vlib.SPEC, cfg))
    cs = vlib.parse_prints(r, "REPLAY")
    seen, out = set(), []
    for c in cs:
        k = json.dumps(c, sort_keys=True)
        if k not in seen:
            seen.add(k)
            out.append(c)
    total = len(out)
    if limit and len(out) > limit:
        step = len(out) / limit
        out = [out[int(i * step)] for i in range(limit)]
    ctx.add_tlc(f"Gen_Sources: trees of <= {nodes} nodes" + (f" (simulate num={simulate})" if simulate else f" (exhaustive: {total} cases, {len(out)} replayed)"), r)
    return out


def replay(ctx, cs, only=None):
    path = os.path.join(vlib.WORK, f"src-cases-{os.getpid()}.ndjson")
    with open(path, "w") as f:
        for c in cs:
            f.write(json.dumps(c) + "\n")
    try:
        rep = worlds.parse_report(vlib.run_bin("amv", ["src-replay", path, vlib.WORK], timeout=1200))
    finally:
        os.remove(path)
    for c in cs:
        ctx.case(c, nontrivial=bool(c["files"]))
    ctx.sample({"tree": {"dirs": cs[len(cs) // 2]["dirs"], "files": cs[len(cs) // 2]["files"], "order": cs[len(cs) // 2]["order"]}})
    ctx.cov["traces_validated_against_impl"] += len(cs)
    ctx.cov.setdefault("replayed", []).append(dict(cases=len(cs), comparisons=rep["checks"], sources=rep["extra"].get("sources"), mismatches=len(rep["mismatches"])))
    for m in rep["mismatches"]:
        what = m.get("what", "?")
        is_dir_asset = "load_dir" in what or "load_rec_dir" in what or "iter" in what or "missing directory" in what
        if only == "C04" and is_dir_asset:
            continue
        if only == "C11" and not is_dir_asset:
            continue
        case = m.pop("case", None)
        ctx.violation(f"{ctx.prop}/{m.get('source')}:{what[:60]}", f"{m.get('source')}: {what}", {"mismatch": m, "case": case})
    return rep
