"""Reloader.tla: the as-built DFS order on every small graph (shared by C05, C06, C08)."""
import vlib


def run(ctx, thorough, neg=True):
    cfg = "MC_Reloader_fixed3.cfg" if thorough else "MC_Reloader_fixed2.cfg"
    r = vlib.tlc_expect_ok("MC_Reloader", cfg, workers=8, timeout=1200)
    ctx.add_tlc(f"Reloader.tla ({cfg}): DFS over every graph incl. cycles: StackBounded, NoDuplicate, OrderValid", r)
    if r.violated:
        ctx.violation(f"{ctx.prop}/spec-reloader", f"Reloader.tla violates {r.violated}", {"tlc": r.trace})
    r = vlib.tlc_expect_ok("MC_Reloader", "MC_Reloader_fixed3live.cfg", workers=8, timeout=1200)
    ctx.add_tlc("Reloader.tla (fixed3live): the sort terminates on every graph (liveness)", r)
    if r.violated:
        ctx.violation(f"{ctx.prop}/spec-reloader-live", f"Reloader.tla violates {r.violated}", {"tlc": r.trace})
    if neg:
        r = vlib.tlc_expect_violation("MC_Reloader", "MC_Reloader_asbuilt.cfg", "StackBounded", workers=2)
        ctx.add_tlc("negative control: visited marked after the recursion (must fail StackBounded: D2)", r, negative=True)
