"""C08  hot_reload always returns: no deadlock, no crash, any number of callers.

Answers.tla (mutex / condvar / slot at the grain of the code) is checked by TLC for deadlock
freedom, OwnAnswer, NoLostWakeup and, under fairness, AllReturn, for 3-4 concurrent callers;
the as-built consume-without-notify is the negative control (D1).  Reloader.tla bounds the
sort on every dependency graph incl. cyclic look-ups (negative control D2).  The real crate
is driven by 2-8 concurrent hot_reload callers x loader threads x event bursts in a child
process under a progress watchdog (blocked = no progress and no CPU for 4 s); the hook events
Request / Notify / Consume and the return of every call are validated against Answers.tla;
cyclic and self look-ups, panicking reloads and a source that drops its EventSender mid-run
must neither block a caller nor kill the process.
"""
import json
import os
import subprocess

import vlib
import worlds

LEVEL = "model_checking"


def stress(ctx, mode, seed, callers, calls, features=()):
    out = os.path.join(vlib.WORK, f"c08-{mode}-{seed}-{os.getpid()}.ndjson")
    bindir = vlib.build_harness(features)
    try:
        p = subprocess.run([os.path.join(bindir, "amv"), "c08-stress", out, str(seed), str(callers), str(calls), mode],
                           stdout=subprocess.PIPE, stderr=subprocess.PIPE, text=True, timeout=180, cwd=vlib.WORK)
        rc, so, se = p.returncode, p.stdout, p.stderr
    except subprocess.TimeoutExpired as ex:
        rc, so, se = 124, (ex.stdout or b"").decode() if isinstance(ex.stdout, bytes) else (ex.stdout or ""), ""
    rep = None
    for line in so.splitlines():
        if line.startswith("REPORT "):
            rep = json.loads(line[7:])
    scenario = dict(mode=mode, seed=seed, callers=callers, calls=calls, features=list(features))
    if rc == 3 or (rep and rep.get("blocked")):
        ctx.violation(f"{ctx.prop}/blocked:{mode}", f"hot_reload callers blocked (no progress, no CPU) in mode {mode} with {callers} callers",
                      dict(scenario=scenario, report=rep, trace_file=out))
        return None
    if rc == 124:
        ctx.violation(f"{ctx.prop}/timeout:{mode}", f"stress run in mode {mode} did not finish in 180 s", dict(scenario=scenario))
        return None
    if rc != 0 or rep is None:
        ctx.violation(f"{ctx.prop}/crash:{mode}", f"the child process died (exit status {rc}) in mode {mode}",
                      dict(scenario=scenario, stderr=se[-2000:]))
        return None
    return out, rep


def run(ctx):
    thorough = ctx.tier == "thorough"
    for cfg, label in [("MC_Answers_fixed3.cfg", "3 callers x 2 calls: safety + deadlock freedom"),
                       ("MC_Answers_live3.cfg", "3 callers: AllReturn under fairness"),
                       ("MC_Answers_fixed3sp.cfg", "3 callers with spurious wake-ups")] + \
                      ([("MC_Answers_fixed4.cfg", "4 callers: safety + deadlock freedom")] if thorough else []):
        r = vlib.tlc_expect_ok("MC_Answers", cfg, workers=8, timeout=1200)
        ctx.add_tlc(f"Answers.tla {label}", r)
        if r.violated:
            ctx.violation("C08/spec-answers", f"Answers.tla violates {r.violated} ({cfg})", {"tlc": r.trace})
    r = vlib.tlc_expect_violation("MC_Answers", "MC_Answers_asbuilt.cfg", workers=2)
    ctx.add_tlc("negative control: consume without notify_all (must deadlock / lose a wake-up: D1)", r, negative=True)
    import checks.reloader_mc as rmc
    rmc.run(ctx, thorough)
    r = vlib.tlc_expect_ok("ChannelCap", "ChannelCap_unbounded.cfg", workers=2)
    ctx.add_tlc("ChannelCap.tla: the reloader is the only consumer and also a producer of cache messages (unbounded: never blocked, every call returns)", r)
    if r.violated:
        ctx.violation("C08/spec-channel", f"ChannelCap.tla violates {r.violated}", {"tlc": r.trace})
    r = vlib.tlc_expect_violation("ChannelCap", "ChannelCap_bounded.cfg", "NeverBlocked", workers=2)
    ctx.add_tlc("negative control: a bounded cache-message channel (the pass blocks sending to itself)", r, negative=True)

    runs = []
    modes = ["plain", "cycle", "panic", "dropsender", "burst"]
    seeds = range(ctx.seed, ctx.seed + (6 if thorough else 2))
    validated = 0
    for mode in modes:
        for sd in seeds:
            callers = [2, 4, 8, 3, 5, 6][(sd - ctx.seed) % 6]
            calls = 500 // callers if mode == "plain" else 300 // callers
            if len(ctx.violations) >= 3:
                break          # enough evidence; blocked runs are slow to time out
            # both lock implementations: odd seeds run on parking_lot
            feats = ("parking_lot",) if (sd - ctx.seed) % 2 == 1 else ()
            res = stress(ctx, mode, sd, callers, calls, feats)
            if res is None:
                continue
            out, rep = res
            ctx.case(dict(mode=mode, seed=sd, callers=callers, events=rep["events"]))
            runs.append(dict(mode=mode, seed=sd, callers=callers, calls=calls, locks=("parking_lot" if feats else "std"),
                             hook_events=rep["events"], projected=rep["projected"]))
            if not vlib.hooks_present():
                os.remove(out)
                continue
            th = out + ".thread"
            if os.path.exists(th):
                # the reloader thread's side of the same run: loop structure, answers after their pass, bookkeeping
                verdict, tr, detail = vlib.trace_check("Trace_Thread", "Trace_Thread.cfg", th, name=f"c08-thread-{mode}-{sd}", timeout=900, xmx="6g")
                if verdict == "error":
                    raise vlib.ToolError(f"Trace_Thread validation failed to run: {detail}")
                if verdict != "accepted":
                    keep = th + ".rejected"
                    os.replace(th, keep)
                    ctx.violation(f"C08/thread-trace:{mode}", f"the reloader thread's hook events are not a run of Trace_Thread.tla ({verdict}: {detail[:300]})",
                                  dict(scenario=runs[-1], trace_file=keep))
                else:
                    ctx.cov["reloader_thread_traces_validated"] = ctx.cov.get("reloader_thread_traces_validated", 0) + 1
                    os.remove(th)
            verdict, tr, detail = vlib.trace_check("Trace_Answers", "Trace_Answers.cfg", out, name=f"c08-{mode}-{sd}", timeout=600)
            if verdict == "error" and callers > 4 and "timeout" in str(detail):
                # the unlogged mailbox steps of many concurrent callers can make the search of Trace_Answers exceed its budget
                # (8 paced callers: about 10^6 states); such a run keeps the blocked-caller watchdog and the thread automaton
                runs[-1]["mailbox_trace_validated"] = False
                os.remove(out)
                continue
            if verdict == "error":
                raise vlib.ToolError(f"trace validation failed to run: {detail}")
            if verdict != "accepted":
                ctx.violation(f"C08/trace:{mode}", f"recorded Request/Notify/Consume/End events are not a behaviour of Answers.tla ({verdict}: {detail})",
                              dict(scenario=runs[-1], trace_file=out))
            else:
                validated += 1
                ctx.cov["states"] += 0
                if len(ctx.cov["samples"]) < 2:
                    with open(out) as f:
                        ctx.sample({"mode": mode, "trace_head": [json.loads(x) for x in f.read().splitlines()[:10]]})
                os.remove(out)
    ctx.cov["stress_runs"] = runs
    ctx.cov["traces_validated_against_impl"] = validated
    # binding demo
    demo = os.path.join(vlib.WORK, f"c08-demo-{os.getpid()}.ndjson")
    with open(demo, "w") as f:
        for e in [{"ev": "Reset"}, {"ev": "Request", "th": "t1", "token": 0}, {"ev": "Request", "th": "t2", "token": 1},
                  {"ev": "Notify", "token": 1}, {"ev": "Consume", "th": "t1", "token": 1}]:
            f.write(json.dumps(e) + "\n")
    verdict, tr, detail = vlib.trace_check("Trace_Answers", "Trace_Answers.cfg", demo, name="c08-demo")
    os.remove(demo)
    if verdict == "accepted" or verdict == "error":
        raise vlib.ToolError("binding demo: a caller consuming another caller's token was not rejected")
    ctx.cov["binding_demos"].append({"corrupted_trace": "t1 consumes t2's token", "verdict": verdict})
    ctx.cov["rule"] = ("stress runs = (mode, seed, callers) combinations, each several hundred hot_reload calls racing with 2 loader threads and an "
                       "event-burst thread; distinct by (mode, seed, callers, number of hook events); all non-trivial")
    ctx.assumptions += ["blocked is decided by the watchdog: no completed call and no CPU time for 4 s",
                        "condvar wake-up order and scheduling in the real runs are whatever the OS produced; TLC covers all of them for <= 4 callers"]


def replay(ctx, path):
    d = json.load(open(path))
    print(json.dumps(d, indent=1)[:3000])
    sc = d.get("scenario")
    if sc:
        res = stress(ctx, sc["mode"], sc["seed"], sc["callers"], sc["calls"])
        return ctx.finish() if res is None else 0
    return 0
