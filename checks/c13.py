"""C13  Every stored value is dropped exactly once; type erasure never lies.

The ownership ledger `life` of CacheRace.tla (produce -> live; loser of a race, get_or_insert
argument on a present key, cache drop -> dropped) and the `dropped` set of AssetCache.tla (reload
replacement, remove, take, clear, load_owned) are checked by TLC (StoredLive, LoserDropped, NoLeak,
DropOnce, NoUseAfterDrop).  In the concurrent runs every value is a tracked token whose Drop event
is accepted by the trace specification only after the step that kills it, exactly once, and all
tokens must be dropped once the cache is gone; the sequential replays check the same ledger after
every behaviour.  Zero-sized, 1-byte, heap-owning and 64-aligned value types go through load,
reload, take, remove, get_or_insert, load_owned, clear and drop with live counts after each step;
all (stored, requested) type pairs are asked of untyped handles and guards.
"""
import vlib
import worlds
from checks import racecommon

LEVEL = "model_checking"


def run(ctx):
    thorough = ctx.tier == "thorough"
    racecommon.model(ctx, thorough, None)
    r = worlds.model_check("W6", 5, ["NoUseAfterDrop"])
    ctx.add_tlc("AssetCache.tla on W6: NoUseAfterDrop over load/remove/take/clear/get_or_insert/reload histories", r)
    if r.violated:
        ctx.violation("C13/spec-W6", f"specification violates {r.violated}", {"tlc": r.trace})
    racecommon.traces(ctx, thorough)
    sim = 1500 if thorough else 400
    worlds.run_suite(ctx, [("W1", 3, None, 8000), ("W6", 6, sim, None), ("W3", 6, sim, None)],
                     nontrivial=lambda b: any(s["snap"] for s in b[1:]))
    # a reload replaces (and drops) the old value only when no read guard can reach it
    import os
    out = os.path.join(vlib.WORK, f"c13-guard-{os.getpid()}.ndjson")
    rep = worlds.parse_report(vlib.run_bin("amv", ["c07-stress", out, ctx.seed, 100 if thorough else 50, "local"], timeout=300))
    verdict, tr, detail = vlib.trace_check("Trace_RwGuard", "Trace_RwGuard_local.cfg", out, name="c13-guard")
    if verdict == "error":
        raise vlib.ToolError(f"trace validation failed to run: {detail}")
    if verdict != "accepted" or rep["torn"]:
        keep = out + ".rejected"
        os.replace(out, keep)
        ctx.violation("C13/replaced-under-guard", "a value was replaced by a reload while a read guard could still reach it", dict(trace_file=keep, tlc=detail))
    else:
        ctx.cov["traces_validated_against_impl"] += 1
        os.remove(out)
    rep = worlds.parse_report(vlib.run_bin("amv", ["c13-types"]))
    ctx.cov["layout_probe_types"] = rep["cases"]
    ctx.cov["type_pair_checks"] = rep["checks"]
    for m in rep["mismatches"]:
        ctx.violation("C13/types:" + m.get("what", "?"), f"{m.get('what')} ({m.get('type', m.get('stored', ''))})", {"mismatch": m})
    ctx.cov["rule"] = ("cases = concurrent stress runs + sequential behaviours of W1/W3/W6 (drop ledger checked after each) + 4 value layouts; "
                       "distinct by content; non-trivial = some value was stored")
    ctx.assumptions += ["memory safety of swap_any / pointer casts is not decided by the specification: only the ownership protocol is, "
                        "through tracked values (observation), see DESIGN.md section 7"]


replay = None


def replay(ctx, path):
    print(open(path).read()[:3000])
    return 0
