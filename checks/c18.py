"""C18  ReloadId bookkeeping is a monotone maximum, atomically.

spec/ReloadId.tla.  (1) TLC exhausts 3 concurrent callers of update/load and 2 callers of
every public operation; the load-then-store variant is the negative control.
(2) spec -> code: every sequential call sequence up to a length bound, with the
specification's result for each call, replayed on the real AtomicReloadId/ReloadId.
(3) code -> spec: concurrent callers on one real AtomicReloadId, Begin/End logged, TLC
searches for a linearization (Trace_ReloadId.tla) and evaluates the invariants.
"""
import json
import os

import vlib

LEVEL = "model_checking"


def gen_cases(n, maxid, ctx, simulate=None, seed=None, depth=None):
    cfg = os.path.join(vlib.SPEC, f"Gen_ReloadId_n{n}.cfg")
    with open(cfg, "w") as f:
        f.write(f"""SPECIFICATION GSpec
CONSTANTS
  Threads = {{"t1"}}
  MaxId = {maxid}
  OpNames = {{"update", "fetch_max", "swap", "store", "load"}}
  MaxCalls = 100
  Atomic = TRUE
  N = {n}
INVARIANT Emit
CHECK_DEADLOCK FALSE
""")
    try:
        r = vlib.tlc_expect_ok("Gen_ReloadId", os.path.basename(cfg), workers=1, simulate=simulate,
                               seed=seed, depth=depth, timeout=600)
    finally:
        os.remove(cfg)
    return r, vlib.parse_prints(r, "REPLAY")


def run(ctx):
    thorough = ctx.tier == "thorough"
    # 1. design level
    r = vlib.tlc_expect_ok("MC_ReloadId", "MC_ReloadId_max.cfg", workers=8, coverage=True)
    ctx.add_tlc("MC_ReloadId_max: 3 callers x 2 calls, update/load, ids 0..3", r)
    if r.violated:
        ctx.violation("C18/spec-max", f"specification violates {r.violated}", {"tlc": r.trace})
    r = vlib.tlc_expect_ok("MC_ReloadId", "MC_ReloadId_all.cfg", workers=8, coverage=True)
    ctx.add_tlc("MC_ReloadId_all: 2 callers x 2 calls, all operations, ids 0..2", r)
    if r.violated:
        ctx.violation("C18/spec-all", f"specification violates {r.violated}", {"tlc": r.trace})
    r = vlib.tlc_expect_violation("MC_ReloadId", "MC_ReloadId_neg.cfg", workers=2)
    ctx.add_tlc("MC_ReloadId_neg: load-then-store update (must fail)", r, negative=True)

    # 1b. unbounded ids / any number of threads: an inductive invariant discharged by Apalache (extra depth;
    #     no verdict depends on it: a tool failure here is reported in the evidence only)
    import shutil, subprocess
    apa = os.path.join(vlib.SPEC, "apalache")
    res = {}
    for name, args, want in [("init", ["--init=Init", "--inv=IndInv", "--length=0"], "NoError"),
                             ("step", ["--init=IndInit", "--inv=IndInv", "--length=1"], "NoError"),
                             ("vacuity guard", ["--init=IndInit", "--inv=Bogus", "--length=1"], "Error")]:
        try:
            p = subprocess.run(["apalache-mc", "check"] + args + ["--out-dir=" + os.path.join(vlib.WORK, "apalache"), "ReloadIdInd.tla"], cwd=apa,
                               stdout=subprocess.PIPE, stderr=subprocess.STDOUT, text=True, timeout=300)
            out = "NoError" if "The outcome is: NoError" in p.stdout else ("Error" if "The outcome is: Error" in p.stdout else "tool-failure")
        except Exception as ex:  # pragma: no cover
            out = f"tool-failure: {ex}"
        res[name] = out
        if out == "Error" and want == "NoError":
            ctx.violation("C18/apalache-" + name.replace(" ", "-"), "the inductive invariant of ReloadIdInd.tla is refuted", {"stdout": p.stdout[-3000:]})
    shutil.rmtree(os.path.join(vlib.WORK, "apalache"), ignore_errors=True)
    ctx.cov["apalache_inductive_invariant"] = res

    # 2. spec -> code
    n, maxid = (4, 3) if thorough else (3, 3)
    r, cases = gen_cases(n, maxid, ctx)
    ctx.add_tlc(f"Gen_ReloadId: all call sequences of length {n} over ids 0..{maxid}", r)
    path = os.path.join(vlib.WORK, f"c18-cases-{os.getpid()}.ndjson")
    with open(path, "w") as f:
        for c in cases:
            f.write(json.dumps(c) + "\n")
    p = vlib.run_bin("amv", ["rid-replay", path, maxid])
    os.remove(path)
    rep = parse_report(p)
    for c in cases:
        ctx.case(c, nontrivial=any(s["op"] != "load" for s in c))
    ctx.cov["exhaustive"] = True
    ctx.cov["replayed_behaviours"] = rep["cases"]
    ctx.cov["replay_comparisons"] = rep["checks"]
    ctx.sample({"replayed_sequence": cases[len(cases) // 2]})
    for m in rep["mismatches"]:
        ctx.violation("C18/replay:" + m.get("what", "?"), m.get("what", "mismatch"), {"mismatch": m})

    # 3. code -> spec
    runs = 400 if thorough else 120
    validated = 0
    for mode in ("max", "all"):
        tpath = os.path.join(vlib.WORK, f"c18-trace-{mode}-{os.getpid()}.ndjson")
        p = vlib.run_bin("amv", ["rid-conc", tpath, runs, ctx.seed + (0 if mode == "max" else 7), mode])
        rep2 = parse_report(p)
        if mode == "max":
            ctx.cov["fast_race_rounds"] = rep2.get("fast_rounds", 0)
            for v in rep2.get("fast_violations", []):
                ctx.violation("C18/fast-race", "4 threads offering ids to one AtomicReloadId: the final id is not the maximum, or the number of TRUE answers does not match the growths",
                              {"round": v})
        verdict, tr, detail = vlib.trace_check("Trace_ReloadId", f"Trace_ReloadId_{mode}.cfg", tpath)
        if verdict == "error":
            raise vlib.ToolError(f"trace validation failed to run: {detail}")
        if verdict in ("invariant", "rejected"):
            keep = ctx.save_replay(f"trace-{mode}", {"trace": open(tpath).read().splitlines(), "tlc": detail})
            ctx.violation(f"C18/trace-{mode}", f"recorded concurrent calls are not a behaviour of ReloadId.tla ({verdict}: {detail})",
                          {"trace_file": keep})
        else:
            validated += runs
            with open(tpath) as f:
                ctx.sample({"trace_head": [json.loads(x) for x in f.read().splitlines()[:8]]})
        os.remove(tpath)
    ctx.cov["traces_validated_against_impl"] = validated

    # binding demonstration: a corrupted trace must be rejected
    demo = os.path.join(vlib.WORK, f"c18-demo-{os.getpid()}.ndjson")
    with open(demo, "w") as f:
        for e in [{"ev": "Reset"}, {"ev": "Begin", "th": "t1", "op": "update", "arg": 2},
                  {"ev": "Begin", "th": "t2", "op": "update", "arg": 2},
                  {"ev": "End", "th": "t2", "ret": 1}, {"ev": "End", "th": "t1", "ret": 1},
                  {"ev": "Final", "cur": 2}]:
            f.write(json.dumps(e) + "\n")
    verdict, tr, detail = vlib.trace_check("Trace_ReloadId", "Trace_ReloadId_max.cfg", demo, name="c18-demo")
    os.remove(demo)
    if verdict == "accepted" or verdict == "error":
        raise vlib.ToolError("binding demo: a trace where two callers are both told TRUE for one growth was not rejected")
    ctx.cov["binding_demos"].append({"corrupted_trace": "both racers told TRUE", "verdict": verdict})
    ctx.cov["rule"] = ("cases = all sequential call sequences of the generator (distinct by content; non-trivial = "
                       "contains an operation other than load); traces = concurrent runs of 2-4 threads x 1-3 calls")
    ctx.assumptions += ["TLA+ steps are sequentially consistent: AcqRel/Release orderings are not modelled",
                        "ids 0..n are the ReloadIds produced by n real reloads of one handle"]


def parse_report(p):
    for line in p.stdout.splitlines():
        if line.startswith("REPORT "):
            return json.loads(line[7:])
    why = vlib.died(p)
    if why:
        raise vlib.Died(why, p)
    raise vlib.ToolError(f"harness gave no report (rc={p.returncode}):\n{p.stdout[-2000:]}\n{p.stderr[-3000:]}")


def replay(ctx, path):
    print(open(path).read()[:4000])
    return 0
