"""C17  OnceInitCell initialises once, keeps its seed on failure, drops once.

OnceInit.tla: the once state, seed / value liveness and K threads whose attempts end ok / err /
panic; TLC checks InitOnce, SeedKept, ExactlyOneArm, DropOnce, NoLeak, RefOnlyWhenDone over every
interleaving of 3 threads x 4 attempts, for seed types with and without Drop (dropping the seed
inside the initialiser is the negative control).  The real cell is driven through every outcome
sequence up to length 4 on both code paths (needs_drop or not) and with a panicking seed
destructor, with counted seeds and values (exactly one of them alive at any time, each dropped
once), the same reference for everybody, get() agreeing with the state; and by 2-4 racing threads
with prescribed outcomes.
"""
import vlib
import worlds

LEVEL = "model_checking"


def run(ctx):
    for cfg, label in [("MC_OnceInit_drop.cfg", "seed with Drop"), ("MC_OnceInit_nodrop.cfg", "seed without Drop")]:
        r = vlib.tlc_expect_ok("MC_OnceInit", cfg, workers=4)
        ctx.add_tlc(f"OnceInit.tla ({label}): 3 threads x 4 attempts x outcomes ok/err/panic", r)
        if r.violated:
            ctx.violation("C17/spec", f"OnceInit.tla violates {r.violated} ({cfg})", {"tlc": r.trace})
    r = vlib.tlc_expect_violation("MC_OnceInit", "MC_OnceInit_neg.cfg", workers=2)
    ctx.add_tlc("negative control: the seed is dropped inside the initialiser (must lose the seed on failure)", r, negative=True)
    r = vlib.tlc_expect_violation("MC_OnceInit", "MC_OnceInit_late.cfg", workers=2)
    ctx.add_tlc("negative control: the once completes before the value is written (a concurrent get sees the seed's bytes)", r, negative=True)
    rep = worlds.parse_report(vlib.run_bin("amv", ["once-replay", ctx.seed], timeout=600))
    ctx.cov["evaluations"] = rep["cases"]
    ctx.cov["distinct_nontrivial"] = rep["cases"]
    ctx.cov["traces_validated_against_impl"] = rep["cases"]
    ctx.cov["comparisons"] = rep["checks"]
    ctx.cov["exhaustive"] = True
    ctx.sample({"outcome_sequence": ["err", "panic", "ok", "ok"], "paths": ["needs_drop", "no_drop", "panicking seed destructor"]})
    for m in rep["mismatches"]:
        ctx.violation(f"C17/{m.get('what', '?')[:70]}", m.get("what"), {"mismatch": m})
    ctx.cov["rule"] = ("cases = every outcome sequence over {ok, err, panic} of length <= 4 x {seed with Drop, without, panicking destructor} (all distinct, all "
                       "non-trivial but the empty one) + 300 races of 2-4 threads with prescribed outcomes + 300 publish races (3 readers spinning on get() while one thread initialises a 2 KiB value)")
    ctx.assumptions += ["the interleavings of the racing threads are OS-produced; all of them are covered only in the model"]


def replay(ctx, path):
    print(open(path).read()[:3000])
    return 0
