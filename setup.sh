#!/bin/sh
# Build the conformance harness offline against /repo's working tree.
set -e
cd "$(dirname "$0")"
exec ./check --setup
