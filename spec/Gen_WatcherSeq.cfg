SPECIFICATION GSpec
CONSTANTS Names = {"a", "b"}
          Dotted = {"x.y"}
          MaxLen = 3
          ResetFirst = TRUE
          PopNeedsDot = FALSE
          K = 2
INVARIANTS Emit HistoryFree
CHECK_DEADLOCK FALSE
