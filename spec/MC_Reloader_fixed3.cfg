SPECIFICATION Spec
CONSTANTS
  FileNodes <- F2
  AssetNodes <- A3
  FixVisitMark = TRUE
INVARIANTS StackBounded NoDuplicate OrderValid

CHECK_DEADLOCK FALSE
