SPECIFICATION TraceSpec
INVARIANT OncePerPass
CONSTRAINT Progress
POSTCONDITION TraceAccepted
CHECK_DEADLOCK FALSE
