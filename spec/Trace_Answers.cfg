SPECIFICATION TraceSpec
CONSTANTS
  Callers = {"t1", "t2", "t3", "t4", "t5", "t6", "t7", "t8"}
  MaxCalls = 100000000
  FixAnswerNotify = TRUE
  Spurious = FALSE
INVARIANTS MutexOK OwnAnswer SlotForWaiter NoLostWakeup
CONSTRAINT Progress
POSTCONDITION TraceAccepted
CHECK_DEADLOCK FALSE
