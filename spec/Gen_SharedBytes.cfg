SPECIFICATION GSpec
CONSTANTS
  Threads = {"t1", "t2"}
  MaxHandles = 3
  FreeWhenOld = 1
  N = 6
INVARIANT Emit
CHECK_DEADLOCK FALSE
