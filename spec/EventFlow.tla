------------------------------ MODULE EventFlow ------------------------------
(***************************************************************************)
(* C05 (the asynchronous part).  Edits, notifications and hot_reload calls *)
(* as separate processes around the reloader's select loop, for ONE source *)
(* entry e and the asset that reads it:                                    *)
(*    ver      number of edits of e                                        *)
(*    evq      event channel: versions of e at the time each event was     *)
(*             sent                                                        *)
(*    handled  ver when an event for e was last dequeued (handle_events)   *)
(*    applied  ver the cached value was last (re)loaded from               *)
(* The reloader loop: Select (ready = cache messages | events, chosen      *)
(* among the non-empty ones), drain ALL cache messages (a Ptr runs a pass  *)
(* over what was dequeued so far and answers), then take ONE event if      *)
(* `ready` said events.  (src/hot_reloading/mod.rs:234-268)                *)
(*                                                                         *)
(* This is the model behind the reading of "the change has been notified"  *)
(* fixed in DESIGN.md section 2: what hot_reload guarantees on return is   *)
(* about the events DEQUEUED before its request was served, not about the  *)
(* events merely SENT before the call (SentThenCallApplies is violated:    *)
(* the request can be drained before the event is taken).                  *)
(***************************************************************************)
EXTENDS Naturals, Sequences, TLC

CONSTANTS MaxEdits, MaxSends, MaxCalls, Static

VARIABLES ver, evq, handled, applied, dirty,   \* dirty: e is in to_reload
          ptr,          \* a Ptr request is in the cache-message channel
          cpc,          \* caller: "out" | "waiting"
          rpc, ready,   \* reloader: "select" | "drain" | "event"
          sends, calls,
          sentBeforeCall   \* history: ver carried by the last event sent before the current call started
vars == <<ver, evq, handled, applied, dirty, ptr, cpc, rpc, ready, sends, calls, sentBeforeCall>>

Init == /\ ver = 0 /\ evq = <<>> /\ handled = 0 /\ applied = 0 /\ dirty = FALSE /\ ptr = FALSE
        /\ cpc = "out" /\ rpc = "select" /\ ready = 0 /\ sends = 0 /\ calls = 0 /\ sentBeforeCall = 0

Edit == /\ ver < MaxEdits /\ ver' = ver + 1
        /\ UNCHANGED <<evq, handled, applied, dirty, ptr, cpc, rpc, ready, sends, calls, sentBeforeCall>>
Send == /\ sends < MaxSends /\ evq' = Append(evq, ver) /\ sends' = sends + 1
        /\ UNCHANGED <<ver, handled, applied, dirty, ptr, cpc, rpc, ready, calls, sentBeforeCall>>
Call == /\ cpc = "out" /\ calls < MaxCalls /\ ~Static
        /\ cpc' = "waiting" /\ ptr' = TRUE /\ calls' = calls + 1
        /\ sentBeforeCall' = IF evq = <<>> THEN handled ELSE evq[Len(evq)]
        /\ UNCHANGED <<ver, evq, handled, applied, dirty, rpc, ready, sends>>

Pass == [a |-> IF dirty THEN ver ELSE applied, d |-> FALSE]    \* a reload reads the CURRENT source

Select == /\ rpc = "select" /\ (ptr \/ evq # <<>>)
          /\ \E r \in {0, 1} : (r = 0 => ptr) /\ (r = 1 => evq # <<>>) /\ ready' = r
          /\ rpc' = "drain"
          /\ UNCHANGED <<ver, evq, handled, applied, dirty, ptr, cpc, sends, calls, sentBeforeCall>>
Drain == /\ rpc = "drain"
         /\ IF ptr THEN /\ applied' = Pass.a /\ dirty' = Pass.d /\ ptr' = FALSE /\ cpc' = "out"   \* update_if_local; answers.notify
                   ELSE UNCHANGED <<applied, dirty, ptr, cpc>>
         /\ rpc' = "event"
         /\ UNCHANGED <<ver, evq, handled, ready, sends, calls, sentBeforeCall>>
Event == /\ rpc = "event"
         /\ IF ready = 1 /\ evq # <<>>
            THEN /\ evq' = Tail(evq) /\ handled' = ver
                 /\ IF Static THEN applied' = ver /\ dirty' = FALSE       \* update_if_static
                              ELSE dirty' = TRUE /\ UNCHANGED applied
            ELSE UNCHANGED <<evq, handled, applied, dirty>>
         /\ rpc' = "select"
         /\ UNCHANGED <<ver, ptr, cpc, ready, sends, calls, sentBeforeCall>>

Reloader == Select \/ Drain \/ Event
Next == Edit \/ Send \/ Call \/ Reloader \/ UNCHANGED vars
Spec == Init /\ [][Next]_vars
FairSpec == Spec /\ WF_vars(Reloader) /\ WF_vars(Call)

(* what hot_reload promises when it returns: everything dequeued so far is applied *)
ReturnAppliesDequeued == [][(cpc = "waiting" /\ cpc' = "out") => (applied' >= handled /\ ~dirty')]_vars
(* the value never runs ahead of the source, and applications only go forward *)
Monotone == [][applied' >= applied /\ applied' <= ver']_vars
(* every event that was sent is eventually dequeued *)
AllDequeued == <>[](evq = <<>>)
(* every dequeued change is eventually applied if the program keeps calling hot_reload (or in static mode) *)
EventuallyApplied == <>[](~dirty \/ (~Static /\ calls = MaxCalls /\ cpc = "out"))
(* NOT guaranteed (negative control, documents the reading of "notified"): an event sent before the *)
(* call is applied when the call returns                                                             *)
SentThenCallApplies == [][(cpc = "waiting" /\ cpc' = "out") => applied' >= sentBeforeCall]_vars
==============================================================================
