SPECIFICATION Spec
CONSTANTS Cpus = {1, 2, 3, 5, 6, 7, 8}
          Hashes = {0, 5, 12, 13, 27, 31, 44}
          RoundUp = FALSE
          IdxShared = "mod"
          IdxExcl = "mask"
INVARIANTS UnionIsMap OneHome AnswersLikeMap InRange
CHECK_DEADLOCK FALSE
