---------------------------- MODULE Trace_Thread ----------------------------
(***************************************************************************)
(* Trace validation of the WHOLE control flow of the hot-reloading thread  *)
(* (src/hot_reloading/mod.rs:220-269 with paths.rs and dependencies.rs):   *)
(* every hook event the thread emits, in order, must fit                   *)
(*                                                                         *)
(*   iteration  = Select{ready} ; drain* ; [ events ]          | Exit      *)
(*   drain      = MsgAddAsset Graph | MsgClear                             *)
(*              | MsgPtr{local} [pass] Notify{token}                       *)
(*              | MsgStatic{local} [pass]                                  *)
(*   events     = Events Event* EventsEnd [pass]      (the pass only in    *)
(*                                         static mode)                    *)
(*   pass       = Pass{changed} (ReloadTry (ReloadOk Graph* | ReloadErr |  *)
(*                nothing))* PassEnd                                       *)
(*                                                                         *)
(* together with the bookkeeping rules of Trace_Pass (known verdicts,      *)
(* changed sets, OrderOK) and the answer protocol: a token is notified     *)
(* once, only after it was requested, and only after the pass its Ptr      *)
(* message triggered has ended; passes run only on a Ptr (local mode), on  *)
(* the Static message, or after a batch of events in static mode.          *)
(***************************************************************************)
EXTENDS DepsGraph, Json, IOUtils, TLCExt

Rec == ndJsonDeserialize(IOEnv.TRACE)

VARIABLES l, g, changed, g0, c0, order, cur,
          phase,      \* "idle" | "drain" | "add" | "ptr" | "pass" | "notify" | "events" | "exited"
          ready,      \* what the last Select reported
          after,      \* where a pass returns to: "notify" | "drain" | "idle"
          static,     \* the reloader switched to static mode
          requested, answered
vars == <<l, g, changed, g0, c0, order, cur, phase, ready, after, static, requested, answered>>

NoKey == [k |-> "none"]
TraceInit == /\ l = 1 /\ g = NoGraph /\ changed = {} /\ g0 = NoGraph /\ c0 = {} /\ order = <<>> /\ cur = NoKey
             /\ phase = "idle" /\ ready = 0 /\ after = "idle" /\ static = FALSE /\ requested = {} /\ answered = {}
             /\ TLCSet(1, 1)

Ev(name) == l <= Len(Rec) /\ Rec[l].ev = name
Adv == l' = l + 1
ToSet(s) == {s[i] : i \in 1..Len(s)}
Same(vs) == UNCHANGED vs

(* a caller thread: hot_reload() took a token and is about to send its Ptr message *)
TRequest == Ev("Request") /\ requested' = requested \cup {Rec[l].token} /\ Adv
            /\ Same(<<g, changed, g0, c0, order, cur, phase, ready, after, static, answered>>)

TSelect == Ev("Select") /\ phase \in {"idle", "drain"} /\ phase' = "drain" /\ ready' = Rec[l].ready /\ Adv
           /\ Same(<<g, changed, g0, c0, order, cur, after, static, requested, answered>>)

TMsgAdd == Ev("MsgAddAsset") /\ phase = "drain" /\ phase' = "add" /\ Adv
           /\ Same(<<g, changed, g0, c0, order, cur, ready, after, static, requested, answered>>)
TGraph == /\ Ev("Graph") /\ phase \in {"add", "pass"}
          /\ g' = GraphInsert(g, Rec[l].key, ToSet(Rec[l].deps))
          /\ phase' = IF phase = "add" THEN "drain" ELSE "pass"
          /\ (phase = "pass" => cur = Rec[l].key)          \* a re-registration follows the successful reload of that key
          /\ Adv /\ Same(<<changed, g0, c0, order, cur, ready, after, static, requested, answered>>)
TClear == Ev("MsgClear") /\ phase = "drain" /\ changed' = {} /\ Adv
          /\ Same(<<g, g0, c0, order, cur, phase, ready, after, static, requested, answered>>)
(* Ptr: a pass in local mode, none in static mode; then the answer *)
TMsgPtr == /\ Ev("MsgPtr") /\ phase = "drain"
           /\ Rec[l].local = ~static
           /\ IF Rec[l].local THEN phase' = "ptr" /\ after' = "notify" ELSE phase' = "notify" /\ Same(after)
           /\ Adv /\ Same(<<g, changed, g0, c0, order, cur, ready, static, requested, answered>>)
TMsgStatic == /\ Ev("MsgStatic") /\ phase = "drain"
              /\ Rec[l].local = ~static
              /\ IF Rec[l].local THEN phase' = "ptr" /\ after' = "drain" /\ static' = TRUE ELSE Same(<<phase, after, static>>)
              /\ Adv /\ Same(<<g, changed, g0, c0, order, cur, ready, requested, answered>>)
TNotify == /\ Ev("Notify") /\ phase = "notify"
           /\ Rec[l].token \in requested /\ Rec[l].token \notin answered
           /\ answered' = answered \cup {Rec[l].token}
           /\ phase' = "drain" /\ Adv
           /\ Same(<<g, changed, g0, c0, order, cur, ready, after, static, requested>>)

(* a batch of events is taken after the drain of the iteration (whether or not the select reported the event *)
(* channel: nothing the properties say depends on that)                                                     *)
TEvents == Ev("Events") /\ phase = "drain" /\ phase' = "events" /\ Adv
           /\ Same(<<g, changed, g0, c0, order, cur, ready, after, static, requested, answered>>)
TEvent == /\ Ev("Event") /\ phase = "events"
          /\ Rec[l].known = (Rec[l].entry \in DOMAIN g)
          /\ changed' = IF Rec[l].known THEN changed \cup {Rec[l].entry} ELSE changed
          /\ Adv /\ Same(<<g, g0, c0, order, cur, phase, ready, after, static, requested, answered>>)
TEventsEnd == /\ Ev("EventsEnd") /\ phase = "events"
              /\ IF static THEN phase' = "ptr" /\ after' = "idle" ELSE phase' = "idle" /\ Same(after)
              /\ Adv /\ Same(<<g, changed, g0, c0, order, cur, ready, static, requested, answered>>)

TPass == /\ Ev("Pass") /\ phase = "ptr"
         /\ ToSet(Rec[l].changed) = changed
         /\ phase' = "pass" /\ g0' = g /\ c0' = changed /\ changed' = {} /\ order' = <<>> /\ cur' = NoKey
         /\ Adv /\ Same(<<g, ready, after, static, requested, answered>>)
TTry == /\ Ev("ReloadTry") /\ phase = "pass"
        /\ order' = Append(order, Rec[l].key) /\ cur' = Rec[l].key
        /\ Adv /\ Same(<<g, changed, g0, c0, phase, ready, after, static, requested, answered>>)
TOk == Ev("ReloadOk") /\ phase = "pass" /\ cur = Rec[l].key /\ Adv
       /\ Same(<<g, changed, g0, c0, order, cur, phase, ready, after, static, requested, answered>>)
TErr == Ev("ReloadErr") /\ phase = "pass" /\ cur = Rec[l].key /\ Adv
        /\ Same(<<g, changed, g0, c0, order, cur, phase, ready, after, static, requested, answered>>)
TPassEnd == /\ Ev("PassEnd") /\ phase = "pass"
            /\ OrderOK(g0, c0, order)
            /\ phase' = after /\ Adv
            /\ Same(<<g, changed, g0, c0, order, cur, ready, after, static, requested, answered>>)

(* the thread leaves its loop from the drain phase (cache-message channel disconnected) *)
TExit == Ev("Exit") /\ phase = "drain" /\ phase' = "exited" /\ Adv
         /\ Same(<<g, changed, g0, c0, order, cur, ready, after, static, requested, answered>>)

TReset == /\ Ev("Reset") /\ Adv
          /\ g' = NoGraph /\ changed' = {} /\ g0' = NoGraph /\ c0' = {} /\ order' = <<>> /\ cur' = NoKey
          /\ phase' = "idle" /\ ready' = 0 /\ after' = "idle" /\ static' = FALSE /\ requested' = {} /\ answered' = {}

TraceNext == TRequest \/ TSelect \/ TMsgAdd \/ TGraph \/ TClear \/ TMsgPtr \/ TMsgStatic \/ TNotify \/ TEvents \/ TEvent
             \/ TEventsEnd \/ TPass \/ TTry \/ TOk \/ TErr \/ TPassEnd \/ TExit \/ TReset
TraceSpec == TraceInit /\ [][TraceNext]_vars

Progress == IF l > TLCGet(1) THEN TLCSet(1, l) ELSE TRUE
TraceAccepted ==
    LET n == TLCGet(1) IN
    IF n = Len(Rec) + 1 THEN TRUE
    ELSE /\ PrintT(<<"UNMATCHED", n, ToJson(Rec[n])>>)
         /\ FALSE
OncePerPass == \A i, j \in 1..Len(order) : i # j => order[i] # order[j]
AnsweredWereRequested == answered \subseteq requested
=============================================================================
