------------------------------- MODULE Sources -------------------------------
(***************************************************************************)
(* C04 / C11.  One directory tree, and the answers each kind of source     *)
(* gives for it.                                                           *)
(*                                                                         *)
(* A tree is grown node by node (AddDir / AddFile), so TLC's search visits *)
(* every tree up to the bound.  It is then frozen into an ARCHIVE: the set *)
(* of members (every file; a chosen subset of the directories - an empty   *)
(* directory needs its own member), and the members are registered one by  *)
(* one, in any order, by the transcription of `register_file`              *)
(* (src/source/zip.rs:91-149, src/source/tar.rs:90-162).  The index built  *)
(* that way must answer read_dir / exists / read exactly like the tree     *)
(* itself (which is what FileSystem::read_dir and the embed! walk compute  *)
(* for valid names: src/source/filesystem.rs:76-109,                       *)
(* macros/src/embedded.rs:50-83).                                          *)
(*                                                                         *)
(*  FixArchiveAncestors = FALSE : as built, only the immediate parent of   *)
(*     a member is registered (D5).                                        *)
(*  FixArchiveAncestors = TRUE  : every ancestor is registered once and    *)
(*     listed once in its own parent; the root always exists.              *)
(***************************************************************************)
EXTENDS Naturals, Sequences, FiniteSets, TLC

CONSTANTS Names,        \* valid path component names (no dot)
          ExtsU,        \* extensions, "" = none
          MaxDepth,     \* directories nest up to this depth
          MaxNodes,     \* files + directories
          FixArchiveAncestors,
          DirLists      \* extension lists of the directory-asset types checked for C11

Root == <<>>
DirE(p) == [k |-> "dir", id |-> p]
FileE(p, e) == [k |-> "file", id |-> p, ext |-> e]
ParentOf(p) == SubSeq(p, 1, Len(p) - 1)

VARIABLES dirs,      \* set of directory paths (sequences of names), not the root
          files,     \* set of [dir, stem, ext]
          phase,     \* "grow" | "archive" | "done"
          explicit,  \* directories that have their own archive member
          pending,   \* members still to be registered
          ifiles,    \* archive index: set of FileE
          idirs,     \* archive index: directory id -> bag of entries (entry -> count)
          badDirs,   \* directories whose read_dir fails (C11)
          order      \* history: the members in the order they were registered (hidden by VIEW when model checking)

vars == <<dirs, files, phase, explicit, pending, ifiles, idirs, badDirs, order>>
View == <<dirs, files, phase, explicit, pending, ifiles, idirs, badDirs>>

FileId(f) == Append(f.dir, f.stem)
Size == Cardinality(dirs) + Cardinality(files)
NoIdx == [d \in {} |-> 0]

Init == /\ dirs = {} /\ files = {} /\ phase = "grow" /\ explicit = {} /\ pending = {}
        /\ ifiles = {} /\ idirs = NoIdx /\ badDirs = {} /\ order = <<>>

AddDir == /\ phase = "grow" /\ Size < MaxNodes
          /\ \E p \in dirs \cup {Root}, n \in Names :
                /\ Len(p) < MaxDepth /\ Append(p, n) \notin dirs
                /\ [dir |-> p, stem |-> n, ext |-> ""] \notin files     \* one path cannot be a file and a directory
                /\ dirs' = dirs \cup {Append(p, n)}
          /\ UNCHANGED <<files, phase, explicit, pending, ifiles, idirs, badDirs, order>>

AddFile == /\ phase = "grow" /\ Size < MaxNodes
           /\ \E p \in dirs \cup {Root}, n \in Names, e \in ExtsU :
                /\ [dir |-> p, stem |-> n, ext |-> e] \notin files
                /\ (e = "" => Append(p, n) \notin dirs)
                /\ files' = files \cup {[dir |-> p, stem |-> n, ext |-> e]}
           /\ UNCHANGED <<dirs, phase, explicit, pending, ifiles, idirs, badDirs, order>>

(* ------------------------------------------------------------------------ *)
(* the tree itself: what every source must answer                            *)
RefChildren(d) ==
    {FileE(FileId(f), f.ext) : f \in {g \in files : g.dir = d}} \cup {DirE(p) : p \in {q \in dirs : ParentOf(q) = d}}
RefDirExists(d) == d = Root \/ d \in dirs
RefFileExists(id, e) == \E f \in files : FileId(f) = id /\ f.ext = e

(* C11: ids a Directory<T> lists, for a type with extension list exts *)
RefDirIds(d, exts) == {FileId(f) : f \in {g \in files : g.dir = d /\ g.ext \in exts}}
RECURSIVE RefRecIds(_, _)
RefRecIds(d, exts) ==
    RefDirIds(d, exts) \cup UNION {RefRecIds(c, exts) : c \in {q \in dirs : ParentOf(q) = d /\ q \notin badDirs}}

(* ------------------------------------------------------------------------ *)
(* freezing into an archive *)
EmptyDirs == {d \in dirs : RefChildren(d) = {}}
Members(ex) == {[k |-> "file", f |-> f] : f \in files} \cup {[k |-> "dir", p |-> p] : p \in ex}

Freeze == /\ phase = "grow"
          /\ \E ex \in SUBSET dirs :
                /\ EmptyDirs \subseteq ex
                /\ explicit' = ex /\ pending' = Members(ex)
          /\ \E bad \in SUBSET dirs : Cardinality(bad) <= 1 /\ badDirs' = bad
          /\ phase' = "archive"
          /\ UNCHANGED <<dirs, files, ifiles, idirs, order>>

BagAdd(b, x) == IF x \in DOMAIN b THEN [b EXCEPT ![x] = @ + 1] ELSE (x :> 1) @@ b
Push(idx, d, entry) ==
    IF d \in DOMAIN idx THEN [idx EXCEPT ![d] = BagAdd(@, entry)] ELSE (d :> (entry :> 1)) @@ idx
EnsureKey(idx, d) == IF d \in DOMAIN idx THEN idx ELSE (d :> NoIdx) @@ idx

(* repaired: register d and every ancestor once, each listed once in its parent *)
RECURSIVE EnsureDir(_, _)
EnsureDir(idx, d) ==
    IF d \in DOMAIN idx THEN idx
    ELSE IF d = Root THEN (Root :> NoIdx) @@ idx
    ELSE LET up == EnsureDir(idx, ParentOf(d)) IN
         Push((d :> NoIdx) @@ up, ParentOf(d), DirE(d))

(* register_file for one member *)
Register ==
    /\ phase = "archive" /\ pending # {}
    /\ \E m \in pending :
        /\ pending' = pending \ {m}
        /\ order' = Append(order, m)
        /\ IF m.k = "file"
           THEN LET id == FileId(m.f) IN
                /\ ifiles' = ifiles \cup {FileE(id, m.f.ext)}
                /\ idirs' = IF FixArchiveAncestors
                            THEN Push(EnsureDir(idirs, m.f.dir), m.f.dir, FileE(id, m.f.ext))
                            ELSE Push(idirs, m.f.dir, FileE(id, m.f.ext))
           ELSE /\ UNCHANGED ifiles
                /\ idirs' = IF FixArchiveAncestors
                            THEN EnsureDir(idirs, m.p)
                            ELSE Push(EnsureKey(idirs, m.p), ParentOf(m.p), DirE(m.p))
    /\ UNCHANGED <<dirs, files, phase, explicit, badDirs>>

Finish == /\ phase = "archive" /\ pending = {}
          /\ idirs' = IF FixArchiveAncestors THEN EnsureKey(idirs, Root) ELSE idirs
          /\ phase' = "done"
          /\ UNCHANGED <<dirs, files, explicit, pending, ifiles, badDirs, order>>

Next == AddDir \/ AddFile \/ Freeze \/ Register \/ Finish \/ (phase = "done" /\ UNCHANGED vars)
Spec == Init /\ [][Next]_vars

(* ------------------------------------------------------------------------ *)
(* the archive index answers *)
IdxDirExists(d) == d \in DOMAIN idirs
IdxChildren(d) == DOMAIN idirs[d]
AllDirQ == {Root} \cup dirs \cup {Append(p, n) : p \in dirs \cup {Root}, n \in Names}

(* C04: the index answers like the tree: every directory (incl. the root) exists, lists each *)
(* direct child exactly once with the right kind, id and extension; nothing else exists     *)
ArchiveAgrees ==
    phase = "done" =>
      /\ \A d \in AllDirQ : IdxDirExists(d) <=> RefDirExists(d)
      /\ \A d \in {Root} \cup dirs :
            IdxDirExists(d) => /\ IdxChildren(d) = RefChildren(d)
                               /\ \A e \in IdxChildren(d) : idirs[d][e] = 1
      /\ ifiles = {FileE(FileId(f), f.ext) : f \in files}
(* every listed entry is readable / listable under the id it was listed with *)
ListedIsReachable ==
    phase = "done" =>
      \A d \in DOMAIN idirs : \A e \in DOMAIN idirs[d] :
          IF e.k = "file" THEN e \in ifiles ELSE e.id \in DOMAIN idirs

(* DirEntry::parent_id / id / is_file / is_dir (src/source/mod.rs:93-139): the id of a listed *)
(* entry is its parent's id plus one name, so that parent_id() of everything read_dir(d)      *)
(* hands out is d itself, and of the root is "none" (modelled as the record [none |-> TRUE]). *)
ParentIdOf(e) == IF e.id = Root THEN [none |-> TRUE] ELSE ParentOf(e.id)
ParentIdAgrees ==
    phase = "done" =>
      /\ \A d \in DOMAIN idirs : \A e \in DOMAIN idirs[d] : ParentIdOf(e) = d /\ e.k \in {"file", "dir"}
      /\ ParentIdOf(DirE(Root)) = [none |-> TRUE]

(* C11: Directory / RecursiveDirectory, as the code computes them from read_dir answers *)
CodeDirIds(d, exts) == {e.id : e \in {x \in RefChildren(d) : x.k = "file" /\ x.ext \in exts}}
RECURSIVE CodeRecIds(_, _)
CodeRecIds(d, exts) ==
    CodeDirIds(d, exts) \cup
    UNION {IF c.id \in badDirs THEN {} ELSE CodeRecIds(c.id, exts) : c \in {x \in RefChildren(d) : x.k = "dir"}}
DirAssetsAgree ==
    \A exts \in DirLists : \A d \in {Root} \cup dirs :
        /\ CodeDirIds(d, exts) = RefDirIds(d, exts)
        /\ (d \notin badDirs => CodeRecIds(d, exts) = RefRecIds(d, exts))

(* A type may override sub_directories (DirLoadable, src/dirs.rs:71-90): F is the set of directories it    *)
(* follows.  What RecursiveDirectory computes from the type's own answers (CodeRecIdsF) is the union over *)
(* the followed, readable part of the subtree (RefRecIdsF); following everything is the default          *)
(* behaviour, following nothing is load_dir, and Arc<T> delegates both functions to T (same F).          *)
RECURSIVE RefRecIdsF(_, _, _)
RefRecIdsF(d, exts, F) ==
    RefDirIds(d, exts) \cup UNION {RefRecIdsF(c, exts, F) : c \in {q \in dirs : ParentOf(q) = d /\ q \in F /\ q \notin badDirs}}
RECURSIVE CodeRecIdsF(_, _, _)
CodeRecIdsF(d, exts, F) ==
    CodeDirIds(d, exts) \cup
    UNION {IF c.id \in badDirs THEN {} ELSE CodeRecIdsF(c.id, exts, F) : c \in {x \in RefChildren(d) : x.k = "dir" /\ x.id \in F}}
FollowAgrees ==
    \A exts \in DirLists : \A d \in ({Root} \cup dirs) \ badDirs :
        /\ RefRecIdsF(d, exts, dirs) = RefRecIds(d, exts)
        /\ RefRecIdsF(d, exts, {}) = RefDirIds(d, exts)
        /\ \A F \in SUBSET dirs : /\ CodeRecIdsF(d, exts, F) = RefRecIdsF(d, exts, F)
                                  /\ RefRecIdsF(d, exts, F) \subseteq RefRecIds(d, exts)
==============================================================================
