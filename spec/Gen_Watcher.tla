----------------------------- MODULE Gen_Watcher -----------------------------
(* Case generator for C12: every (entry, notification kind, spelling of the     *)
(* reported path) with the entries the specification says are named; replayed   *)
(* by `amv watch-replay` through the real id_of_path and the real notify        *)
(* event handler bound to a test channel.                                       *)
EXTENDS Watcher, Json

Case == [entry |-> e, kind |-> kind,
         cases |-> {[path |-> p, named |-> NamedFor(e, kind, p), id |-> IdOfPath(p, e.k = "dir")] : p \in Spellings(PathOf(e))}]
Emit == PrintT(<<"REPLAY", ToJson(Case)>>)
=============================================================================
