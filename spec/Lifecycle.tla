------------------------------ MODULE Lifecycle ------------------------------
(***************************************************************************)
(* C15 (and the lifetime part of C08).  The message loop of the            *)
(* hot-reloading thread (src/hot_reloading/mod.rs:220-269) together with   *)
(* the lifetimes of the two channels it selects on:                        *)
(*   cache_msg : sender owned by the HotReloader inside the AssetCache     *)
(*   events    : senders owned by the source / the file watcher            *)
(* One action per step of the loop; `Select` is enabled only if some       *)
(* selected channel is non-empty or disconnected -- otherwise the thread   *)
(* is blocked, which is what "quiet when idle" means.                      *)
(*                                                                         *)
(*  FixExitOnCacheDrop = FALSE : as built, a disconnected cache_msg only   *)
(*     ends the drain loop; the thread spins for ever (D4).                *)
(*  FixKeepServing = FALSE : as built, a disconnected event channel ends   *)
(*     the thread, possibly with a Ptr request enqueued (D12).             *)
(***************************************************************************)
EXTENDS Naturals, Sequences, FiniteSets, TLC

CONSTANTS MaxMsgs, MaxEvents, MaxCalls, FixExitOnCacheDrop, FixKeepServing

VARIABLES
    cmsgs,        \* cache_msg channel: bag of message kinds (FIFO only per sender) kind -> count
    cacheAlive,   \* the AssetCache (and its cache_msg sender) exists
    waiting,      \* number of hot_reload callers blocked for their answer
    events,       \* number of event batches queued
    senderAlive,  \* some EventSender still exists
    evSelected,   \* the event channel is still in the select set
    rpc,          \* "select" | "drain" | "event" | "exited"
    ready,        \* index select.ready() returned
    idle,         \* consecutive loop iterations that consumed nothing
    consumed,     \* something was consumed in the current iteration
    sentM, sentE, calls   \* bounds on the environment

vars == <<cmsgs, cacheAlive, waiting, events, senderAlive, evSelected, rpc, ready, idle, consumed, sentM, sentE, calls>>

Kinds == {"add", "clear", "static", "ptr"}
NoMsgs == [k \in Kinds |-> 0]
Pending == \E k \in Kinds : cmsgs[k] > 0

Init == /\ cmsgs = NoMsgs /\ cacheAlive = TRUE /\ waiting = 0 /\ events = 0 /\ senderAlive = TRUE
        /\ evSelected = TRUE /\ rpc = "select" /\ ready = 0 /\ idle = 0 /\ consumed = FALSE
        /\ sentM = 0 /\ sentE = 0 /\ calls = 0

(* environment ------------------------------------------------------------ *)
SendMsg(k) == /\ cacheAlive /\ sentM < MaxMsgs /\ k \in {"add", "clear", "static"}
            /\ cmsgs' = [cmsgs EXCEPT ![k] = @ + 1] /\ sentM' = sentM + 1
            /\ UNCHANGED <<cacheAlive, waiting, events, senderAlive, evSelected, rpc, ready, idle, consumed, sentE, calls>>
(* hot_reload(): the send succeeds as long as the receiver exists; the caller then waits *)
HotReload == /\ cacheAlive /\ calls < MaxCalls
             /\ calls' = calls + 1
             /\ IF rpc # "exited" THEN cmsgs' = [cmsgs EXCEPT !["ptr"] = @ + 1] /\ waiting' = waiting + 1
                                  ELSE UNCHANGED <<cmsgs, waiting>>
             /\ UNCHANGED <<cacheAlive, events, senderAlive, evSelected, rpc, ready, idle, consumed, sentM, sentE>>
(* dropping the cache needs exclusive access: no caller is inside hot_reload *)
DropCache == /\ cacheAlive /\ waiting = 0
             /\ cacheAlive' = FALSE
             /\ UNCHANGED <<cmsgs, waiting, events, senderAlive, evSelected, rpc, ready, idle, consumed, sentM, sentE, calls>>
SendEvent == /\ senderAlive /\ sentE < MaxEvents /\ rpc # "exited"
             /\ events' = events + 1 /\ sentE' = sentE + 1
             /\ UNCHANGED <<cmsgs, cacheAlive, waiting, senderAlive, evSelected, rpc, ready, idle, consumed, sentM, calls>>
DropSender == /\ senderAlive /\ senderAlive' = FALSE
              /\ UNCHANGED <<cmsgs, cacheAlive, waiting, events, evSelected, rpc, ready, idle, consumed, sentM, sentE, calls>>

(* the thread --------------------------------------------------------------- *)
CacheReady == Pending \/ ~cacheAlive
EventsReady == evSelected /\ (events > 0 \/ ~senderAlive)

Select == /\ rpc = "select"
          /\ \E r \in {0, 1} :
                /\ (r = 0 => CacheReady) /\ (r = 1 => EventsReady)
                /\ ready' = r
          /\ rpc' = "drain" /\ consumed' = FALSE
          /\ UNCHANGED <<cmsgs, cacheAlive, waiting, events, senderAlive, evSelected, idle, sentM, sentE, calls>>

DrainKind(k) ==
            /\ rpc = "drain" /\ cmsgs[k] > 0
            /\ cmsgs' = [cmsgs EXCEPT ![k] = @ - 1]
            /\ waiting' = IF k = "ptr" THEN waiting - 1 ELSE waiting    \* answers.notify(token)
            /\ consumed' = TRUE
            /\ UNCHANGED <<cacheAlive, events, senderAlive, evSelected, rpc, ready, idle, sentM, sentE, calls>>

DrainOne == \E k \in Kinds : DrainKind(k)

DrainEnd == /\ rpc = "drain" /\ ~Pending
            /\ IF ~cacheAlive /\ FixExitOnCacheDrop
                 THEN rpc' = "exited"                           \* Err(Disconnected) => break 'thread
                 ELSE rpc' = "event"                            \* Err(_) => break
            /\ UNCHANGED <<cmsgs, cacheAlive, waiting, events, senderAlive, evSelected, ready, idle, consumed, sentM, sentE, calls>>

EndIter(c) == /\ idle' = IF c THEN 0 ELSE idle + 1

EventStep ==
    /\ rpc = "event"
    /\ IF ready = 1 /\ evSelected
       THEN IF events > 0
            THEN /\ events' = events - 1 /\ rpc' = "select" /\ EndIter(TRUE) /\ UNCHANGED evSelected
            ELSE IF senderAlive
                 THEN /\ rpc' = "select" /\ EndIter(consumed) /\ UNCHANGED <<events, evSelected>>       \* Empty
                 ELSE IF FixKeepServing
                      THEN /\ evSelected' = FALSE /\ rpc' = "select" /\ EndIter(consumed) /\ UNCHANGED events   \* select.remove(1)
                      ELSE /\ rpc' = "exited" /\ UNCHANGED <<events, evSelected, idle>>               \* break
       ELSE /\ rpc' = "select" /\ EndIter(consumed) /\ UNCHANGED <<events, evSelected>>
    /\ UNCHANGED <<cmsgs, cacheAlive, waiting, senderAlive, ready, consumed, sentM, sentE, calls>>

Reloader == Select \/ DrainOne \/ DrainEnd \/ EventStep
Env == SendMsg("add") \/ HotReload \/ DropCache \/ SendEvent \/ DropSender
Next == Reloader \/ Env \/ UNCHANGED vars
Spec == Init /\ [][Next]_vars
FairSpec == Spec /\ WF_vars(Reloader)

(* ------------------------------------------------------------------------ *)
TypeOK == rpc \in {"select", "drain", "event", "exited"} /\ waiting \in Nat /\ idle \in Nat

(* quiet when idle: the thread never goes twice round its loop without consuming anything *)
NoSpin == idle <= 1
(* blocked, not polling, when every selected channel is connected and empty *)
BlockedWhenIdle == (rpc = "select" /\ ~CacheReady /\ ~EventsReady) => ~ENABLED Select
(* each caller is answered: the thread does not exit while a request is enqueued or could still be sent *)
NoOrphanRequest == rpc = "exited" => (waiting = 0 /\ ~cacheAlive)
(* goes away with its cache *)
GoesAway == (~cacheAlive) ~> (rpc = "exited")
(* every call returns *)
AllAnswered == (waiting > 0) ~> (waiting = 0)
==============================================================================
