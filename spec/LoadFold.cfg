SPECIFICATION Spec
INVARIANTS FirstGoodWins DefaultDecides ErrorPrecedence CachesIffOk ReadsInOrder OrIsMax
CHECK_DEADLOCK FALSE
