\* 3 concurrent callers, update/load only: OneTruePerGrowth, MaxFinal
SPECIFICATION Spec
CONSTANTS
  t1 = t1  t2 = t2  t3 = t3
  Threads <- MCThreads3
  MaxId = 3
  OpNames <- MCOpsMax
  MaxCalls = 2
  Atomic = TRUE
INVARIANTS TypeOK MaxFinal NeverAbove OneTruePerGrowth NeverLeast SeqLaw
PROPERTY Monotone
CHECK_DEADLOCK FALSE
