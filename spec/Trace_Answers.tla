--------------------------- MODULE Trace_Answers ---------------------------
(* Trace validation for C08 (mailbox): hook events Request / Notify / Consume   *)
(* and the End of each hot_reload call, recorded from the real crate under      *)
(* concurrent callers; every mutex / condvar step of Answers.tla is silent.     *)
EXTENDS Answers, Json, IOUtils, TLCExt

Rec == ndJsonDeserialize(IOEnv.TRACE)
VARIABLE l
tvars == <<mutex, slot, waiting, chan, cpc, tok, ncalls, rpc, rtok, next, processed, answered, l>>

TraceInit == Init /\ l = 1 /\ TLCSet(1, 1)
Ev(name) == l <= Len(Rec) /\ Rec[l].ev = name
Adv == l' = l + 1
Stay == l' = l

TRequest == Ev("Request") /\ RequestTok(Rec[l].th, Rec[l].token) /\ Adv
TNotify  == Ev("Notify") /\ rtok = Rec[l].token /\ RPublish /\ Adv
TConsume == Ev("Consume") /\ tok[Rec[l].th] = Rec[l].token /\ CConsume(Rec[l].th) /\ Adv
TEnd     == Ev("End") /\ Return(Rec[l].th) /\ Adv
TReset   == /\ Ev("Reset") /\ Adv
            /\ mutex' = None /\ slot' = None /\ waiting' = {} /\ chan' = {}
            /\ cpc' = [c \in Callers |-> "idle"] /\ tok' = [c \in Callers |-> 0]
            /\ ncalls' = [c \in Callers |-> 0] /\ rpc' = "recv" /\ rtok' = 0 /\ next' = 0
            /\ processed' = {} /\ answered' = {}

Silent == /\ Stay
          /\ \/ \E c \in Callers : CLock(c) \/ CPark(c)
             \/ RRecv \/ RWork \/ RLock \/ RPark
             \/ \E p \in Procs : SpuriousWake(p)

TraceNext == TRequest \/ TNotify \/ TConsume \/ TEnd \/ TReset \/ Silent
TraceSpec == TraceInit /\ [][TraceNext]_tvars

Progress == IF l > TLCGet(1) THEN TLCSet(1, l) ELSE TRUE
TraceAccepted ==
    LET n == TLCGet(1) IN
    IF n = Len(Rec) + 1 THEN TRUE
    ELSE /\ PrintT(<<"UNMATCHED", n, ToJson(Rec[n])>>)
         /\ FALSE
=============================================================================
