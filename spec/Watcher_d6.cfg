SPECIFICATION Spec
CONSTANTS
  Names = {"a", "b"}
  ExtsW = {"", "x"}
  MaxDepth = 3
  FixRoot = FALSE
  FixRename = TRUE
  FixRemove = TRUE
INVARIANTS RoundTrip
CHECK_DEADLOCK FALSE
