SPECIFICATION TraceSpec
CONSTANTS
  Readers = {"r1", "r2", "r3", "r4", "lg"}
  W = 1
  MaxWrites = 100000000
  MaxReads = 100000000
  Locked = TRUE
  AnswerAfterPass = TRUE
  StaticMode = TRUE
INVARIANTS NoTornRead Pinned
CONSTRAINT Progress
POSTCONDITION TraceAccepted
CHECK_DEADLOCK FALSE
