\* negative control: load-then-store update must violate OneTruePerGrowth / MaxFinal
SPECIFICATION Spec
CONSTANTS
  t1 = t1  t2 = t2  t3 = t3
  Threads <- MCThreads2
  MaxId = 2
  OpNames <- MCOpsMax
  MaxCalls = 1
  Atomic = FALSE
INVARIANTS OneTruePerGrowth MaxFinal
CHECK_DEADLOCK FALSE
