SPECIFICATION Spec
CONSTANTS
  FileNodes <- F1
  AssetNodes <- A2
  FixVisitMark = FALSE
INVARIANTS StackBounded NoDuplicate OrderValid

CHECK_DEADLOCK FALSE
