------------------------------ MODULE MC_World ------------------------------
(* Worlds (keys, files, scripts, calls) for the AssetCache generator and     *)
(* model-checking configurations.                                            *)
EXTENDS Gen_AssetCache

K(ty, id) == Key(ty, id)
F(id, ext) == <<id, ext>>

(* W1: the map laws (C02), extension order and errors (C03) ---------------- *)
W1Keys == {K("L0","a"), K("L1","a"), K("L2","a"), K("L0","b"), K("N0","a"), K("S0","a")}
W1Files == {F("a","x"), F("a","y"), F("b","x")}
W1Src == [f \in W1Files |-> CASE f = F("a","x") -> CVal(1) [] f = F("a","y") -> CVal(2) [] OTHER -> None]
W1Scripts == (K("N0","a") :> <<ILoad("L0","a",TRUE), ILoad("L2","a",FALSE), IGet("L0","b")>>)
W1Ops ==
    {[op |-> o, k |-> k] : o \in {"load", "get", "remove"}, k \in W1Keys \ {K("S0","a")}}
    \cup {[op |-> o, k |-> k] : o \in {"owned", "take", "contains"}, k \in {K("L0","a"), K("N0","a"), K("L1","a")}}
    \cup {[op |-> "goi", k |-> k, n |-> 7] : k \in {K("S0","a"), K("L0","a"), K("L0","b")}}
    \cup {[op |-> "get", k |-> K("S0","a")], [op |-> "take", k |-> K("S0","a")], [op |-> "clear"]}
    \cup {[op |-> "edit", f |-> F("b","x"), c |-> CVal(3)], [op |-> "edit", f |-> F("a","x"), c |-> CBad],
          [op |-> "edit", f |-> F("a","x"), c |-> None]}
=============================================================================
