------------------------------ MODULE MC_World ------------------------------
(* Worlds (keys, files, scripts, calls) for the AssetCache generator and     *)
(* model-checking configurations.  A world is closed: every key a script     *)
(* mentions is in its key set.                                               *)
EXTENDS Gen_AssetCache

K(ty, id) == Key(ty, id)
F(id, ext) == <<id, ext>>
Call(o, ks) == {[op |-> o, k |-> k] : k \in ks}
EditOp(f, c) == [op |-> "edit", f |-> f, c |-> c]
NotifyOp(b) == [op |-> "notify", batch |-> b]
Simple(o) == [op |-> o]

(* W1: the map laws (C02): loads, owned, get, goi, remove, take, clear ------ *)
W1Keys == {K("L0","a"), K("L1","a"), K("L2","a"), K("L0","b"), K("N0","a"), K("S0","a"), K("N1","b"), K("L0","c/a"), K("L0","c")}
W1Files == {F("a","x"), F("a","y"), F("b","x"), F("c/a","x"), F("c","x")}
W1Srcs == {[f \in W1Files |-> CASE f = F("a","x") -> CVal(1) [] f = F("a","y") -> CVal(2) [] f = F("c/a","x") -> CVal(4) [] OTHER -> None]}
W1Scripts == (K("N0","a") :> <<ILoad("L0","a",TRUE), ILoad("L2","a",FALSE), IGet("L0","b")>>)
          \* a load that stores a placeholder under its own key before it returns (re-entrancy)
          @@ (K("N1","b") :> <<IGoi("N1","b",5), ILoad("L0","a",FALSE)>>)
W1Ops ==
    Call("load", W1Keys \ {K("S0","a")}) \cup Call("get", W1Keys) \cup Call("remove", W1Keys \ {K("L1","a")})
    \cup Call("owned", {K("L0","a"), K("N0","a")}) \cup Call("take", {K("L0","a"), K("N0","a"), K("S0","a")})
    \cup Call("contains", {K("L0","a"), K("L2","a")})
    \cup {[op |-> "goi", k |-> k, n |-> 7] : k \in {K("S0","a"), K("L0","a"), K("L0","b"), K("L0","c/a")}}
    \cup Call("load", {K("L0","c/a")}) \cup Call("remove", {K("L0","c/a")}) \cup Call("contains", {K("L0","c/a")})
    \cup {Simple("clear")}
    \cup {EditOp(F("b","x"), CVal(3)), EditOp(F("a","x"), CBad), EditOp(F("a","x"), None)}

(* W2: what a load returns (C03): every content of every extension --------- *)
W2Keys == {K("L0","a"), K("L1","a"), K("L3","a"), K("L4","a"), K("L5","a"), K("L6","a"), K("L7","a"),
           K("N0","b"), K("N1","c")}
W2Files == {F("a","x"), F("a","y"), F("a","z"), F("a","")}
W2Contents == {None, CVal(1), CBad, CIo("denied"), CIo("other"), CIo("notfound")}
W2Srcs == {s \in [W2Files -> W2Contents] : s[F("a","")] \in {None, CVal(1), CBad}}
W2Scripts == (K("N0","b") :> <<ILoad("L1","a",TRUE)>>) @@ (K("N1","c") :> <<ILoad("N0","b",TRUE), ILoad("L6","a",FALSE)>>)
W2Ops == Call("load", W2Keys) \cup Call("owned", {K("L1","a"), K("L6","a"), K("N1","c")})

(* W2b: break / repair orders on a two-extension leaf and a compound over it *)
W2bKeys == {K("L1","a"), K("L3","a"), K("N0","b")}
W2bFiles == {F("a","x"), F("a","y")}
W2bSrcs == {[f \in W2bFiles |-> None], [f \in W2bFiles |-> CBad],
            [f \in W2bFiles |-> IF f = F("a","x") THEN CIo("denied") ELSE CVal(2)]}
W2bScripts == (K("N0","b") :> <<ILoad("L1","a",TRUE)>>)
W2bOps == Call("load", W2bKeys) \cup Call("contains", W2bKeys)
          \cup {EditOp(f, c) : f \in W2bFiles, c \in {None, CVal(1), CBad, CIo("other")}}

(* W3: a diamond under hot-reloading (C05, C06, C14) ----------------------- *)
W3Keys == {K("L0","a"), K("N0","b"), K("N1","c"), K("N2","d"), K("L2","a")}
W3Files == {F("a","x"), F("b","x")}
W3Srcs == {[f \in W3Files |-> CVal(1)]}
W3Scripts == (K("N0","b") :> <<ILoad("L0","a",TRUE)>>)
          @@ (K("N1","c") :> <<ILoad("L0","a",TRUE), IRead("b","x"), ILoad("L2","a",FALSE)>>)
          @@ (K("N2","d") :> <<ILoad("N0","b",TRUE), ILoad("N1","c",FALSE)>>)
W3Batches == {{FileE("a","x")}, {FileE("b","x")}, {FileE("a","x"), FileE("b","x"), FileE("c","x")}, {DirE("")}}
W3Ops == Call("load", {K("N2","d"), K("N0","b"), K("L0","a")}) \cup {Simple("hot_reload")}
         \cup {NotifyOp(b) : b \in W3Batches}
         \cup {EditOp(F("a","x"), c) : c \in {CVal(2), CBad, None}} \cup {EditOp(F("b","x"), CVal(5))}

(* W3f: the diamond on a real file system: every edit is notified by the watcher *)
W3fKeys == W3Keys \cup {K("DL0","")}
W3fOps == Call("load", {K("N2","d"), K("N0","b"), K("L0","a"), K("DL0","")}) \cup {Simple("hot_reload")}
          \cup {[op |-> "editn", f |-> F("a","x"), c |-> c] : c \in {CVal(2), CVal(3), CBad, None}}
          \cup {[op |-> "editn", f |-> F("b","x"), c |-> c] : c \in {CVal(5), None}}

(* W4: re-wiring through an indirection (C05 re-learning; the D8 shape) ----- *)
W4Keys == {K("L0","a"), K("L0","b"), K("N0","c")}
W4Files == {F("a","x"), F("b","x"), F("c","y")}
W4Srcs == {[f \in W4Files |-> CASE f = F("c","y") -> CRef("a") [] OTHER -> CVal(1)]}
W4Scripts == (K("N0","c") :> <<IIndirect("c","y","L0",TRUE)>>)
W4Ops == Call("load", W4Keys) \cup {Simple("hot_reload")}
         \cup {NotifyOp(b) : b \in {{FileE("c","y")}, {FileE("b","x")}, {FileE("a","x")}, {FileE("c","y"), FileE("b","x")}}}
         \cup {EditOp(F("c","y"), CRef("b")), EditOp(F("c","y"), CRef("a")), EditOp(F("b","x"), CVal(2)), EditOp(F("a","x"), CVal(3))}

(* W4e: the recorded set of a compound shrinks to exactly nothing across a successful reload (its selector *)
(* is read inside no_record and stops selecting); later changes of the former dependency are none of its  *)
(* business any more (C06: precise), and it comes back when the selector selects again and it is reloaded *)
W4eScripts == (K("N0","c") :> <<IIndirectNR("c","y","L0",FALSE)>>)
W4eOps == Call("load", {K("N0","c")}) \cup {Simple("hot_reload"), NotifyOp({FileE("a","x")}),
          EditOp(F("c","y"), CVal(1)), EditOp(F("c","y"), CRef("b")), EditOp(F("a","x"), CVal(3))}

(* W4r: re-wire, then touch the dependency that was dropped (stale reverse edges) *)
W4rOps == Call("load", {K("N0","c")}) \cup {Simple("hot_reload"), NotifyOp({FileE("c","y")}), NotifyOp({FileE("a","x")}),
          EditOp(F("c","y"), CRef("b")), EditOp(F("a","x"), CVal(3))}

(* W4n: re-wire onto an asset nobody loaded (the reloader thread first-loads it, its AddAsset message *)
(* arrives after its node exists), then edit that asset ------------------------------------------- *)
W4nOps == Call("load", {K("N0","c")}) \cup {Simple("hot_reload"), NotifyOp({FileE("c","y")}), NotifyOp({FileE("b","x")}),
          EditOp(F("c","y"), CRef("b")), EditOp(F("b","x"), CVal(2))}

(* W4x: an asset that is removed and loaded again is registered a second time (AddAsset for a key the *)
(* reloader already knows): its NEW dependency set counts --------------------------------------------- *)
W4xOps == Call("load", {K("N0","c")}) \cup Call("remove", {K("N0","c")}) \cup {Simple("hot_reload"), NotifyOp({FileE("b","x")}),
          EditOp(F("c","y"), CRef("b")), EditOp(F("b","x"), CVal(2))}

(* W4s / W4t: the re-wiring histories of W4n / W4r on a 'static cache (enhance_hot_reloading): the passes run *)
(* when the events arrive, hot_reload() is not involved ------------------------------------------------------ *)
W4sOps == Call("load", {K("N0","c")}) \cup {Simple("enhance"), NotifyOp({FileE("c","y")}), NotifyOp({FileE("b","x")}),
          EditOp(F("c","y"), CRef("b")), EditOp(F("b","x"), CVal(2))}
W4tOps == Call("load", {K("N0","c")}) \cup {Simple("enhance"), NotifyOp({FileE("c","y")}), NotifyOp({FileE("a","x")}),
          EditOp(F("c","y"), CRef("b")), EditOp(F("a","x"), CVal(3))}

(* W4y: like W4x, but then the dependency that was DROPPED by the second registration is edited: the asset must *)
(* not be rewritten (C06) ------------------------------------------------------------------------------------- *)
W4yOps == Call("load", {K("N0","c")}) \cup Call("remove", {K("N0","c")}) \cup {Simple("hot_reload"), NotifyOp({FileE("a","x")}),
          EditOp(F("c","y"), CRef("b")), EditOp(F("a","x"), CVal(3))}

(* W4d: the shortest histories that re-wire and edit in one batch (D8) ------- *)
W4dOps == Call("load", {K("L0","b"), K("N0","c")}) \cup {Simple("hot_reload"), NotifyOp({FileE("c","y"), FileE("b","x")}),
          EditOp(F("c","y"), CRef("b")), EditOp(F("b","x"), CVal(2))}

(* W3s: entries that share an id (two extensions of one id; a file and a directory of the same name) *)
(* notified in ONE batch: an id does not identify an entry (C05, C06) ----------------------------- *)
W3sKeys == {K("L0","d"), K("N1","c"), K("DL0","d")}
W3sFiles == {F("d","x"), F("d","y"), F("d.a","x"), F("d.b","x")}
W3sSrcs == {[f \in W3sFiles |-> IF f = F("d.b","x") THEN None ELSE CVal(1)]}
W3sScripts == (K("N1","c") :> <<IRead("d","y")>>)
W3sOps == Call("load", W3sKeys) \cup {Simple("hot_reload")}
          \cup {NotifyOp(b) : b \in {{FileE("d","x"), FileE("d","y")}, {DirE("d"), FileE("d","x")}, {DirE("d"), FileE("d","y")}}}
          \cup {EditOp(F("d","x"), CVal(2)), EditOp(F("d","y"), CVal(3)), EditOp(F("d.b","x"), CVal(1))}

(* W5: directories (C11 through the cache, C05 for directory changes) ------- *)
W5Keys == {K("DL0",""), K("DL0","d"), K("DL1","d"), K("RL0",""), K("RL0","d"), K("RL0","d.e"),
           K("DL0","d.e"), K("L0","d.a"), K("L1","d.a")}
W5Files == {F("a","x"), F("d.a","x"), F("d.a","y"), F("d.b","y"), F("d.e.a","x")}
W5Srcs == {[f \in W5Files |-> IF f \in {F("a","x"), F("d.a","x"), F("d.b","y")} THEN CVal(1) ELSE None]}
W5Scripts == [k \in {} |-> <<>>]
W5Ops == Call("load", {K("DL0","d"), K("DL1","d"), K("RL0",""), K("DL0","")}) \cup {Simple("hot_reload")}
         \cup {NotifyOp(b) : b \in {{DirE("d")}, {DirE("")}, {DirE("d.e"), FileE("d.e.a","x")}, {DirE("d"), DirE("d.e")}}}
         \cup {EditOp(F("d.a","y"), CVal(2)), EditOp(F("d.a","x"), None), EditOp(F("d.e.a","x"), CVal(4)),
               EditOp(F("d.b","y"), None), [op |-> "mkdir", d |-> "d.e"]}

(* W5f: faults while listing directories (C09, C11) ---------------------------- *)
W5fSrcs == {[f \in W5Files |-> IF f \in {F("a","x"), F("d.a","x"), F("d.b","y"), F("d.e.a","x")} THEN CVal(1) ELSE None]}
W5fArms == {[op |-> "arm", what |-> "readdir", at |-> n, kind |-> kd] : n \in 0..3, kd \in {"notfound", "other"}}
W5fOps == Call("load", {K("RL0",""), K("RL0","d"), K("DL0","d")}) \cup W5fArms \cup {Simple("disarm"), Simple("hot_reload"),
          NotifyOp({DirE("d")}), EditOp(F("d.a","x"), None)}

(* W6: what is declared non-reloadable (C10; the D7 history) ---------------- *)
W6Keys == {K("L0","a"), K("L2","a"), K("S0","a"), K("N4","a"), K("AL2","a"), K("AL0","a"), K("OL2","a"), K("OL0","a")}
W6Files == {F("a","x")}
W6Srcs == {[f \in W6Files |-> CVal(1)]}
W6Scripts == (K("N4","a") :> <<IRead("a","x")>>)
W6Ops == Call("load", {K("L0","a"), K("L2","a"), K("N4","a"), K("AL2","a"), K("AL0","a"), K("OL2","a"), K("OL0","a")}) \cup Call("remove", {K("L0","a")}) \cup Call("take", {K("L0","a")})
         \cup {Simple("clear"), Simple("hot_reload"), NotifyOp({FileE("a","x")}), EditOp(F("a","x"), CVal(2)), EditOp(F("a","x"), CVal(3))}
         \cup {[op |-> "goi", k |-> k, n |-> 7] : k \in {K("L0","a"), K("S0","a"), K("L2","a")}}

(* W7: faults (C09) ---------------------------------------------------------- *)
W7Keys == {K("L1","a"), K("L0","b"), K("N0","c"), K("N1","d")}
W7Files == {F("a","x"), F("a","y"), F("b","x")}
W7Srcs == {[f \in W7Files |-> IF f = F("a","x") THEN None ELSE CVal(1)]}
W7Scripts == (K("N0","c") :> <<ILoad("L1","a",TRUE), ILoad("L0","b",TRUE)>>)
          @@ (K("N1","d") :> <<ILoad("L0","b",FALSE), ILoad("N0","c",TRUE)>>)
W7Arms == {[op |-> "arm", what |-> "read", at |-> n, kind |-> kd] : n \in 0..3, kd \in {"notfound", "denied", "other"}}
          \cup {[op |-> "arm", what |-> w, at |-> n, kind |-> "other"] : w \in {"loader", "panic"}, n \in 0..1}
W7Ops == Call("load", {K("N1","d"), K("N0","c")}) \cup W7Arms \cup {Simple("disarm")}
W7ROps == W7Ops \cup {Simple("hot_reload"), NotifyOp({FileE("b","x"), FileE("a","y")}), EditOp(F("b","x"), CVal(2)), EditOp(F("a","y"), CVal(3))}

(* W7c: faults during reloads of a chain (the pass order is forced) ----------- *)
W7cKeys == {K("L1","a"), K("N0","c"), K("N1","d")}
W7cScripts == (K("N0","c") :> <<ILoad("L1","a",TRUE), IRead("b","x")>>) @@ (K("N1","d") :> <<ILoad("N0","c",TRUE)>>)
W7cArms == {[op |-> "arm", what |-> "read", at |-> n, kind |-> kd] : n \in 0..2, kd \in {"notfound", "other"}}
           \cup {[op |-> "arm", what |-> w, at |-> 0, kind |-> "other"] : w \in {"loader", "panic"}}
W7cOps == Call("load", {K("N1","d")}) \cup W7cArms \cup {Simple("disarm"), Simple("hot_reload"),
          NotifyOp({FileE("b","x"), FileE("a","y")}), NotifyOp({FileE("a","y")}), EditOp(F("b","x"), CVal(2)), EditOp(F("a","y"), CVal(3)),
          EditOp(F("a","y"), CBad),
          \* the file of the higher-priority extension, absent when the asset was loaded, appears
          EditOp(F("a","x"), CVal(5)), NotifyOp({FileE("a","x")})}

(* W6d: the shortest histories around remove / clear / get_or_insert --------- *)
W6dOps == Call("load", {K("L0","a")}) \cup Call("remove", {K("L0","a")})
          \cup {Simple("clear"), Simple("hot_reload"), NotifyOp({FileE("a","x")}), EditOp(F("a","x"), CVal(2)),
                [op |-> "goi", k |-> K("L0","a"), n |-> 7]}

(* W7d: a compound whose reload fails before it reaches its later dependencies  *)
W7dKeys == {K("L1","a"), K("N0","c")}
W7dScripts == (K("N0","c") :> <<IReadReq("b","x"), ILoad("L1","a",TRUE)>>)
W7dOps == Call("load", {K("N0","c")}) \cup {Simple("disarm"), Simple("hot_reload"),
          [op |-> "arm", what |-> "read", at |-> 0, kind |-> "other"], [op |-> "arm", what |-> "read", at |-> 0, kind |-> "notfound"],
          NotifyOp({FileE("b","x")}), NotifyOp({FileE("a","y")}), EditOp(F("b","x"), CVal(2)), EditOp(F("a","y"), CVal(3))}

(* W9b: a panic inside no_record, caught inside the load (C14, C09) ------------ *)
W9bKeys == {K("L0","a"), K("L0","b"), K("N0","d")}
W9bFiles == {F("a","x"), F("b","x"), F("d","y")}
W9bSrcs == {[f \in W9bFiles |-> CVal(1)]}
W9bScripts == (K("N0","d") :> <<ITry(<<INoRec(<<ILoad("L0","a",TRUE), IPanic>>)>>), ILoad("L0","b",TRUE), IRead("d","y"),
                                 ITry(<<IRead("a","x"), IPanic>>)>>)
W9bOps == Call("load", {K("N0","d"), K("L0","b")}) \cup {Simple("hot_reload")}
          \cup {NotifyOp({FileE(f[1], f[2])}) : f \in W9bFiles} \cup {EditOp(f, CVal(2)) : f \in W9bFiles}

(* W8: enhance_hot_reloading ('static cache) --------------------------------- *)
W8Ops == Call("load", {K("N2","d"), K("L0","a")}) \cup {Simple("enhance"), Simple("hot_reload")}
         \cup {NotifyOp(b) : b \in {{FileE("a","x")}, {FileE("b","x")}}}
         \cup {EditOp(F("a","x"), c) : c \in {CVal(2), CBad}} \cup {EditOp(F("b","x"), CVal(5))}

(* W9n: a nested load that fails and is tolerated is a dependency all the same: when the asset exists *)
(* later and is reloaded, the outer asset follows (C14, C05) ------------------------------------------ *)
W9nKeys == {K("L0","a"), K("N0","d")}
W9nFiles == {F("a","x"), F("d","y")}
W9nSrcs == {[f \in W9nFiles |-> IF f = F("a","x") THEN c ELSE CVal(1)] : c \in {None, CBad}}
W9nScripts == (K("N0","d") :> <<ILoad("L0","a",FALSE), IRead("d","y")>>)
W9nOps == Call("load", W9nKeys) \cup {Simple("hot_reload"), NotifyOp({FileE("a","x")}), EditOp(F("a","x"), CVal(2))}

(* W9o: a reloadable compound that takes a NON-reloadable asset as an owned value: the file that asset is read *)
(* from belongs to the compound, which follows it (C14, C05) --------------------------------------------------- *)
W9oKeys == {K("L2","a"), K("L0","a"), K("N0","d")}
W9oFiles == {F("a","x"), F("d","y")}
W9oSrcs == {[f \in W9oFiles |-> CVal(1)]}
W9oScripts == (K("N0","d") :> <<IOwned("L2","a",TRUE), IRead("d","y")>>)
W9oOps == Call("load", {K("N0","d"), K("L2","a")}) \cup {Simple("hot_reload")}
          \cup {NotifyOp({FileE(f[1], f[2])}) : f \in W9oFiles} \cup {EditOp(f, CVal(2)) : f \in W9oFiles}

(* W9: attribution of dependencies (C14): no_record, load_owned, nesting ----- *)
W9Keys == {K("L0","a"), K("L0","b"), K("L0","c"), K("L2","a"), K("N0","d"), K("N1","d.a"), K("N4","d.b")}
W9Files == {F("a","x"), F("b","x"), F("c","x"), F("d","y")}
W9Srcs == {[f \in W9Files |-> CVal(1)]}
W9Scripts == (K("N0","d") :> <<INoRec(<<ILoad("L0","a",TRUE), IRead("d","y")>>), IOwned("L0","b",TRUE), ILoad("N1","d.a",TRUE), ILoad("N4","d.b",TRUE)>>)
          @@ (K("N1","d.a") :> <<ILoad("L0","c",TRUE)>>)
          @@ (K("N4","d.b") :> <<IRead("d","y"), ILoad("L2","a",TRUE)>>)
W9Ops == Call("load", {K("N0","d")}) \cup {Simple("hot_reload")}
         \cup {NotifyOp({FileE(f[1], f[2])}) : f \in W9Files}
         \cup {EditOp(f, CVal(2)) : f \in W9Files}
=============================================================================
