------------------------------ MODULE ChannelCap ------------------------------
(***************************************************************************)
(* C08 (a design constraint made explicit).  The hot-reloading thread is   *)
(* the ONLY consumer of the cache-message channel, and it is also a        *)
(* producer: a reload pass that first-loads new reloadable assets sends    *)
(* one AddAsset message per asset to itself (asset.rs:249-268 called from  *)
(* anycache.rs:223-245 on the reloader thread).  With a bounded channel    *)
(* (Cap > 0) a pass that registers more than Cap assets blocks for ever in *)
(* `send`, with a hot_reload caller waiting; the channel must be unbounded *)
(* (Cap = 0, as built: channel::unbounded()).                              *)
(***************************************************************************)
EXTENDS Naturals, TLC

CONSTANTS Cap,        \* 0 = unbounded
          MaxNew      \* assets a pass may first-load

VARIABLES queued,     \* messages in the channel
          rpc,        \* "drain" | "pass" | "blocked"
          owed,       \* AddAsset messages the running pass still has to send
          waiting     \* a hot_reload caller is blocked for its answer
vars == <<queued, rpc, owed, waiting>>

Init == queued = 0 /\ rpc = "drain" /\ owed = 0 /\ waiting = FALSE

Request == /\ ~waiting /\ (Cap = 0 \/ queued < Cap)
           /\ waiting' = TRUE /\ queued' = queued + 1 /\ UNCHANGED <<rpc, owed>>
(* the reloader takes the Ptr message and starts a pass that will first-load n new assets *)
StartPass == /\ rpc = "drain" /\ waiting /\ queued > 0
             /\ \E n \in 0..MaxNew : owed' = n
             /\ queued' = queued - 1 /\ rpc' = "pass" /\ UNCHANGED waiting
SelfSend == /\ rpc = "pass" /\ owed > 0
            /\ IF Cap = 0 \/ queued < Cap
               THEN queued' = queued + 1 /\ owed' = owed - 1 /\ UNCHANGED rpc
               ELSE rpc' = "blocked" /\ UNCHANGED <<queued, owed>>      \* send() blocks; nobody else receives
            /\ UNCHANGED waiting
Answer == /\ rpc = "pass" /\ owed = 0 /\ rpc' = "drain" /\ waiting' = FALSE /\ UNCHANGED <<queued, owed>>
DrainAdd == /\ rpc = "drain" /\ ~waiting /\ queued > 0 /\ queued' = queued - 1 /\ UNCHANGED <<rpc, owed, waiting>>

Next == Request \/ StartPass \/ SelfSend \/ Answer \/ DrainAdd \/ UNCHANGED vars
Spec == Init /\ [][Next]_vars /\ WF_vars(StartPass \/ SelfSend \/ Answer \/ DrainAdd)

Bound == queued <= 6
NeverBlocked == rpc # "blocked"
EveryCallReturns == waiting ~> ~waiting
==============================================================================
