------------------------------ MODULE CacheRace ------------------------------
(***************************************************************************)
(* C01 / C13 (concurrent part).  N threads share one cache and call load,  *)
(* get_cached, get_or_insert and contains on overlapping keys.             *)
(*   Lookup  = AssetMap::get under the shard read lock (cache.rs:93-98)    *)
(*   Produce = the loader / the get_or_insert argument creates a value     *)
(*   Insert  = AssetMap::insert under the shard write lock: first writer   *)
(*             wins (entry().or_insert), the loser's value is dropped      *)
(*             (cache.rs:100-105, anycache.rs:295-303, 402-417)            *)
(* A value is a token; the handle of a key is identified by the token of   *)
(* the value that won the insertion.  `life` is the ownership ledger.      *)
(*                                                                         *)
(*  Replace = TRUE is the negative control (insert instead of or_insert).  *)
(***************************************************************************)
EXTENDS Naturals, FiniteSets, Sequences, TLC

CONSTANTS Threads, Keys, MaxCalls, OpNames, Replace, FailKeys   \* loads of FailKeys fail (nothing produced)

None == [nil |-> TRUE]
Tok(n) == [nil |-> FALSE, n |-> n]

VARIABLES cache,   \* Key -> None | token of the stored value
          pc,      \* "idle" | "called" | "missed" | "produced" | "ret"
          op,      \* [name, key]
          mine,    \* token produced by the call in progress
          ret,     \* what the call returns: None | token  (contains: Tok(1)/None as bool)
          ncalls, next,
          life,    \* token -> "live" | "dropped"
          given,   \* Key -> set of tokens handed out since the key was created
          everPresent,  \* keys that have been observed present
          alive    \* the cache exists

vars == <<cache, pc, op, mine, ret, ncalls, next, life, given, everPresent, alive>>

Init == /\ cache = [k \in Keys |-> None]
        /\ pc = [t \in Threads |-> "idle"]
        /\ op = [t \in Threads |-> [name |-> "none", key |-> CHOOSE k \in Keys : TRUE]]
        /\ mine = [t \in Threads |-> None] /\ ret = [t \in Threads |-> None]
        /\ ncalls = [t \in Threads |-> 0] /\ next = 1
        /\ life = [n \in {} |-> "live"] /\ given = [k \in Keys |-> {}]
        /\ everPresent = {} /\ alive = TRUE

(* get_or_insert receives its value as an argument: it exists before the look-up *)
BeginTok(t, name, k, n) ==
    /\ alive /\ pc[t] = "idle" /\ ncalls[t] < MaxCalls /\ name \in OpNames
    /\ pc' = [pc EXCEPT ![t] = "called"]
    /\ op' = [op EXCEPT ![t] = [name |-> name, key |-> k]]
    /\ ncalls' = [ncalls EXCEPT ![t] = @ + 1]
    /\ IF name = "goi"
       THEN /\ n \notin DOMAIN life
            /\ mine' = [mine EXCEPT ![t] = Tok(n)]
            /\ life' = (n :> "live") @@ life
            /\ next' = IF n >= next THEN n + 1 ELSE next
       ELSE UNCHANGED <<mine, life, next>>
    /\ UNCHANGED <<cache, ret, given, everPresent, alive>>
Begin(t, name, k) == BeginTok(t, name, k, next)

(* the look-up every call starts with *)
Lookup(t) ==
    /\ pc[t] = "called"
    /\ LET k == op[t].key
           hit == cache[k] # None IN
       CASE op[t].name = "contains" ->
                /\ ret' = [ret EXCEPT ![t] = IF hit THEN Tok(1) ELSE None]
                /\ pc' = [pc EXCEPT ![t] = "ret"]
                /\ everPresent' = IF hit THEN everPresent \cup {k} ELSE everPresent
                /\ UNCHANGED <<given, life, mine>>
         [] hit \/ op[t].name = "get" ->
                /\ ret' = [ret EXCEPT ![t] = cache[k]]
                /\ pc' = [pc EXCEPT ![t] = "ret"]
                /\ given' = IF hit THEN [given EXCEPT ![k] = @ \cup {cache[k].n}] ELSE given
                /\ everPresent' = IF hit THEN everPresent \cup {k} ELSE everPresent
                \* get_or_insert on a present key: the argument is dropped
                /\ IF op[t].name = "goi" THEN life' = [life EXCEPT ![mine[t].n] = "dropped"] /\ mine' = [mine EXCEPT ![t] = None]
                                         ELSE UNCHANGED <<life, mine>>
         [] OTHER ->
                /\ pc' = [pc EXCEPT ![t] = IF op[t].name = "goi" THEN "produced" ELSE "missed"]
                /\ UNCHANGED <<ret, given, everPresent, life, mine>>
    /\ UNCHANGED <<cache, op, ncalls, next, alive>>

(* the loader runs (load) or the argument already exists (get_or_insert) *)
ProduceTok(t, n) ==
    /\ pc[t] = "missed" /\ n \notin DOMAIN life
    /\ mine' = [mine EXCEPT ![t] = Tok(n)]
    /\ life' = (n :> "live") @@ life
    /\ next' = IF n >= next THEN n + 1 ELSE next
    /\ pc' = [pc EXCEPT ![t] = "produced"]
    /\ UNCHANGED <<cache, op, ret, ncalls, given, everPresent, alive>>
(* a load whose loader fails produces nothing and caches nothing *)
LoadFails(t) ==
    /\ pc[t] = "missed" /\ op[t].key \in FailKeys
    /\ ret' = [ret EXCEPT ![t] = None] /\ pc' = [pc EXCEPT ![t] = "ret"]
    /\ UNCHANGED <<cache, op, mine, ncalls, next, life, given, everPresent, alive>>
Produce(t) == IF op[t].key \in FailKeys THEN LoadFails(t) ELSE ProduceTok(t, next)

(* shard.entry(key).or_insert(entry): one critical section *)
Insert(t) ==
    /\ pc[t] = "produced"
    /\ LET k == op[t].key
           won == cache[k] = None \/ Replace IN
        /\ cache' = IF won THEN [cache EXCEPT ![k] = mine[t]] ELSE cache
        /\ life' = IF won
                   THEN (IF cache[k] # None THEN [life EXCEPT ![cache[k].n] = "dropped"] ELSE life)   \* Replace drops the old one
                   ELSE [life EXCEPT ![mine[t].n] = "dropped"]                                        \* the loser is dropped
        /\ ret' = [ret EXCEPT ![t] = IF won THEN mine[t] ELSE cache[k]]
        /\ given' = [given EXCEPT ![k] = @ \cup {(IF won THEN mine[t] ELSE cache[k]).n}]
        /\ everPresent' = everPresent \cup {k}
    /\ pc' = [pc EXCEPT ![t] = "ret"]
    /\ mine' = [mine EXCEPT ![t] = None]
    /\ UNCHANGED <<op, ncalls, next, alive>>

End(t) ==
    /\ pc[t] = "ret"
    /\ pc' = [pc EXCEPT ![t] = "idle"] /\ ret' = [ret EXCEPT ![t] = None]
    /\ UNCHANGED <<cache, op, mine, ncalls, next, life, given, everPresent, alive>>

(* the cache is dropped once nobody borrows it: every stored value is dropped *)
DropCache ==
    /\ alive /\ \A t \in Threads : pc[t] = "idle"
    /\ alive' = FALSE
    /\ life' = [n \in DOMAIN life |-> IF \E k \in Keys : cache[k] = Tok(n) THEN "dropped" ELSE life[n]]
    /\ UNCHANGED <<cache, pc, op, mine, ret, ncalls, next, given, everPresent>>

Next == \/ \E t \in Threads : (\E name \in OpNames, k \in Keys : Begin(t, name, k)) \/ Lookup(t) \/ Produce(t) \/ Insert(t) \/ End(t)
        \/ DropCache
        \/ (~alive /\ UNCHANGED vars)
Spec == Init /\ [][Next]_vars

------------------------------------------------------------------------------
(* C01: between two removals every successful call on k yields the same handle *)
StableHandle == \A k \in Keys : Cardinality(given[k]) <= 1
(* every racer observes the winner *)
SeesWinner == \A t \in Threads : (pc[t] = "ret" /\ op[t].name # "contains" /\ ret[t] # None) => ret[t] = cache[op[t].key]
(* presence never flips back to absent *)
PresenceMonotone == alive => \A k \in everPresent : cache[k] # None
(* the handle handed out stays valid (its value is alive) as long as the cache is *)
HandleLive == alive => \A k \in Keys : \A n \in given[k] : life[n] = "live"
(* C13: a stored value is never dropped while the cache holds it; losers are dropped at once *)
StoredLive == alive => \A k \in Keys : cache[k] # None => life[cache[k].n] = "live"
LoserDropped == \A n \in DOMAIN life :
                   (life[n] = "live" /\ alive) => (\E k \in Keys : cache[k] = Tok(n)) \/ (\E t \in Threads : mine[t] = Tok(n))
(* after the cache is gone nothing is left *)
NoLeak == ~alive => \A n \in DOMAIN life : life[n] = "dropped"
(* a value is dropped exactly once: a drop step needs a live value *)
DropOnce == [][\A n \in DOMAIN life : life[n] = "dropped" => life'[n] = "dropped"]_vars
==============================================================================
