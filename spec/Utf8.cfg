SPECIFICATION Spec
CONSTANT MaxLen = 4
INVARIANTS NoStrayContinuation NoTruncation NeverX AsciiOk Concat
CHECK_DEADLOCK FALSE
