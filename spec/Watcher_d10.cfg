SPECIFICATION Spec
CONSTANTS
  Names = {"a", "b"}
  ExtsW = {"", "x"}
  MaxDepth = 3
  FixRoot = TRUE
  FixRename = FALSE
  FixRemove = TRUE
INVARIANTS TableExact
CHECK_DEADLOCK FALSE
