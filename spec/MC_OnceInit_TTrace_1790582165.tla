---- MODULE MC_OnceInit_TTrace_1790582165 ----
EXTENDS Sequences, TLCExt, Toolbox, MC_OnceInit, Naturals, TLC

_expression ==
    LET MC_OnceInit_TEExpression == INSTANCE MC_OnceInit_TEExpression
    IN MC_OnceInit_TEExpression!expression
----

_trace ==
    LET MC_OnceInit_TETrace == INSTANCE MC_OnceInit_TETrace
    IN MC_OnceInit_TETrace!trace
----

_inv ==
    ~(
        TLCGet("level") = Len(_TETrace)
        /\
        seedDrops = (1)
        /\
        pc = ((t1 :> "ret" @@ t2 :> "idle" @@ t3 :> "idle"))
        /\
        seed = ("dropped")
        /\
        once = ("empty")
        /\
        cellAlive = (TRUE)
        /\
        runner = ("nobody")
        /\
        okCount = (0)
        /\
        value = ("none")
        /\
        valueDrops = (0)
        /\
        attempts = (1)
        /\
        out = ((t1 :> "err" @@ t2 :> "none" @@ t3 :> "none"))
    )
----

_init ==
    /\ seedDrops = _TETrace[1].seedDrops
    /\ valueDrops = _TETrace[1].valueDrops
    /\ attempts = _TETrace[1].attempts
    /\ cellAlive = _TETrace[1].cellAlive
    /\ once = _TETrace[1].once
    /\ runner = _TETrace[1].runner
    /\ out = _TETrace[1].out
    /\ pc = _TETrace[1].pc
    /\ okCount = _TETrace[1].okCount
    /\ seed = _TETrace[1].seed
    /\ value = _TETrace[1].value
----

_next ==
    /\ \E i,j \in DOMAIN _TETrace:
        /\ \/ /\ j = i + 1
              /\ i = TLCGet("level")
        /\ seedDrops  = _TETrace[i].seedDrops
        /\ seedDrops' = _TETrace[j].seedDrops
        /\ valueDrops  = _TETrace[i].valueDrops
        /\ valueDrops' = _TETrace[j].valueDrops
        /\ attempts  = _TETrace[i].attempts
        /\ attempts' = _TETrace[j].attempts
        /\ cellAlive  = _TETrace[i].cellAlive
        /\ cellAlive' = _TETrace[j].cellAlive
        /\ once  = _TETrace[i].once
        /\ once' = _TETrace[j].once
        /\ runner  = _TETrace[i].runner
        /\ runner' = _TETrace[j].runner
        /\ out  = _TETrace[i].out
        /\ out' = _TETrace[j].out
        /\ pc  = _TETrace[i].pc
        /\ pc' = _TETrace[j].pc
        /\ okCount  = _TETrace[i].okCount
        /\ okCount' = _TETrace[j].okCount
        /\ seed  = _TETrace[i].seed
        /\ seed' = _TETrace[j].seed
        /\ value  = _TETrace[i].value
        /\ value' = _TETrace[j].value

\* Uncomment the ASSUME below to write the states of the error trace
\* to the given file in Json format. Note that you can pass any tuple
\* to `JsonSerialize`. For example, a sub-sequence of _TETrace.
    \* ASSUME
    \*     LET J == INSTANCE Json
    \*         IN J!JsonSerialize("MC_OnceInit_TTrace_1790582165.json", _TETrace)

=============================================================================

 Note that you can extract this module `MC_OnceInit_TEExpression`
  to a dedicated file to reuse `expression` (the module in the 
  dedicated `MC_OnceInit_TEExpression.tla` file takes precedence 
  over the module `MC_OnceInit_TEExpression` below).

---- MODULE MC_OnceInit_TEExpression ----
EXTENDS Sequences, TLCExt, Toolbox, MC_OnceInit, Naturals, TLC

expression == 
    [
        \* To hide variables of the `MC_OnceInit` spec from the error trace,
        \* remove the variables below.  The trace will be written in the order
        \* of the fields of this record.
        seedDrops |-> seedDrops
        ,valueDrops |-> valueDrops
        ,attempts |-> attempts
        ,cellAlive |-> cellAlive
        ,once |-> once
        ,runner |-> runner
        ,out |-> out
        ,pc |-> pc
        ,okCount |-> okCount
        ,seed |-> seed
        ,value |-> value
        
        \* Put additional constant-, state-, and action-level expressions here:
        \* ,_stateNumber |-> _TEPosition
        \* ,_seedDropsUnchanged |-> seedDrops = seedDrops'
        
        \* Format the `seedDrops` variable as Json value.
        \* ,_seedDropsJson |->
        \*     LET J == INSTANCE Json
        \*     IN J!ToJson(seedDrops)
        
        \* Lastly, you may build expressions over arbitrary sets of states by
        \* leveraging the _TETrace operator.  For example, this is how to
        \* count the number of times a spec variable changed up to the current
        \* state in the trace.
        \* ,_seedDropsModCount |->
        \*     LET F[s \in DOMAIN _TETrace] ==
        \*         IF s = 1 THEN 0
        \*         ELSE IF _TETrace[s].seedDrops # _TETrace[s-1].seedDrops
        \*             THEN 1 + F[s-1] ELSE F[s-1]
        \*     IN F[_TEPosition - 1]
    ]

=============================================================================



Parsing and semantic processing can take forever if the trace below is long.
 In this case, it is advised to uncomment the module below to deserialize the
 trace from a generated binary file.

\*
\*---- MODULE MC_OnceInit_TETrace ----
\*EXTENDS IOUtils, MC_OnceInit, TLC
\*
\*trace == IODeserialize("MC_OnceInit_TTrace_1790582165.bin", TRUE)
\*
\*=============================================================================
\*

---- MODULE MC_OnceInit_TETrace ----
EXTENDS MC_OnceInit, TLC

trace == 
    <<
    ([seedDrops |-> 0,pc |-> (t1 :> "idle" @@ t2 :> "idle" @@ t3 :> "idle"),seed |-> "live",once |-> "empty",cellAlive |-> TRUE,runner |-> "nobody",okCount |-> 0,value |-> "none",valueDrops |-> 0,attempts |-> 0,out |-> (t1 :> "none" @@ t2 :> "none" @@ t3 :> "none")]),
    ([seedDrops |-> 0,pc |-> (t1 :> "want" @@ t2 :> "idle" @@ t3 :> "idle"),seed |-> "live",once |-> "empty",cellAlive |-> TRUE,runner |-> "nobody",okCount |-> 0,value |-> "none",valueDrops |-> 0,attempts |-> 1,out |-> (t1 :> "none" @@ t2 :> "none" @@ t3 :> "none")]),
    ([seedDrops |-> 1,pc |-> (t1 :> "init" @@ t2 :> "idle" @@ t3 :> "idle"),seed |-> "dropped",once |-> "running",cellAlive |-> TRUE,runner |-> t1,okCount |-> 0,value |-> "none",valueDrops |-> 0,attempts |-> 1,out |-> (t1 :> "none" @@ t2 :> "none" @@ t3 :> "none")]),
    ([seedDrops |-> 1,pc |-> (t1 :> "ret" @@ t2 :> "idle" @@ t3 :> "idle"),seed |-> "dropped",once |-> "empty",cellAlive |-> TRUE,runner |-> "nobody",okCount |-> 0,value |-> "none",valueDrops |-> 0,attempts |-> 1,out |-> (t1 :> "err" @@ t2 :> "none" @@ t3 :> "none")])
    >>
----


=============================================================================

---- CONFIG MC_OnceInit_TTrace_1790582165 ----
CONSTANTS
    t1 = t1
    t2 = t2
    t3 = t3
    Threads <- T3
    MaxAttempts = 4
    NeedsDrop = TRUE
    PublishLate = FALSE
    SeedDropInside = TRUE
    t3 = t3
    t1 = t1
    t2 = t2

INVARIANT
    _inv

CHECK_DEADLOCK
    \* CHECK_DEADLOCK off because of PROPERTY or INVARIANT above.
    FALSE

INIT
    _init

NEXT
    _next

CONSTANT
    _TETrace <- _trace

ALIAS
    _expression
=============================================================================
\* Generated on Mon Sep 28 07:56:06 UTC 2026