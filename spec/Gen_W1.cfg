SPECIFICATION GSpec
CONSTANTS
  Keys <- W1Keys
  Files <- W1Files
  DirsU = {}
  Scripts <- W1Scripts
  InitSrc <- W1Src
  InitDirs = {}
  HasReloader = FALSE
  FixGoi = FALSE
  Ops <- W1Ops
  N = 2
INVARIANT Emit
CHECK_DEADLOCK FALSE
