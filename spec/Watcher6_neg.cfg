SPECIFICATION Spec
CONSTANTS MaxWrites = 2 MaxPolls = 2 BumpInsideLock = FALSE
INVARIANTS NewAfterReport
