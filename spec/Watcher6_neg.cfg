SPECIFICATION Spec
CONSTANTS MaxWrites = 2 MaxPolls = 2 TwoLoads = FALSE
  BumpInsideLock = FALSE
INVARIANTS NewAfterReport
