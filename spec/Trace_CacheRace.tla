-------------------------- MODULE Trace_CacheRace --------------------------
(* Trace validation for C01/C13: concurrent calls on the real cache.          *)
(* Begin/End from the harness, Produce/Drop from tracked values, Insert from   *)
(* the hook inside the shard write lock; the look-up is a silent step.         *)
EXTENDS CacheRace, Json, IOUtils, TLCExt

Rec == ndJsonDeserialize(IOEnv.TRACE)
VARIABLES l, seenDrop, ptr
tvars == <<cache, pc, op, mine, ret, ncalls, next, life, given, everPresent, alive, l, seenDrop, ptr>>

TraceInit == Init /\ l = 1 /\ seenDrop = {} /\ ptr = [k \in Keys |-> 0] /\ TLCSet(1, 1)
Ev(name) == l <= Len(Rec) /\ Rec[l].ev = name
Adv == l' = l + 1
Keep == UNCHANGED <<seenDrop, ptr>>

TBegin == /\ Ev("Begin") /\ BeginTok(Rec[l].th, Rec[l].op, Rec[l].key, Rec[l].tok) /\ Adv /\ Keep
TLookup == \E t \in Threads : (Lookup(t) /\ l' = l /\ Keep)
TProduce == /\ Ev("Produce") /\ ProduceTok(Rec[l].th, Rec[l].tok) /\ Adv /\ Keep
TFail == /\ Ev("LoadFail") /\ LoadFails(Rec[l].th) /\ Adv /\ Keep
TInsert == /\ Ev("Insert")
           /\ LET t == Rec[l].th IN
               /\ op[t].key = Rec[l].key
               /\ (cache[Rec[l].key] = None) = Rec[l].won
               /\ Insert(t)
           /\ Adv /\ Keep
(* a value may only be dropped once the specification says it is dead, and once *)
TDrop == /\ Ev("Drop")
         /\ Rec[l].tok \in DOMAIN life /\ life[Rec[l].tok] = "dropped" /\ Rec[l].tok \notin seenDrop
         /\ seenDrop' = seenDrop \cup {Rec[l].tok}
         /\ Adv /\ UNCHANGED <<vars, ptr>>
(* the call returns: same token as the specification, one address per handle *)
TEnd == /\ Ev("End")
        /\ LET t == Rec[l].th IN
            /\ pc[t] = "ret"
            /\ IF Rec[l].tok = 0 THEN ret[t] = None ELSE ret[t] = Tok(Rec[l].tok)
            /\ IF op[t].name # "contains" /\ Rec[l].tok # 0
               THEN /\ ptr[op[t].key] \in {0, Rec[l].ptr}
                    /\ ptr' = [ptr EXCEPT ![op[t].key] = Rec[l].ptr]
               ELSE UNCHANGED ptr
            /\ End(t)
        /\ Adv /\ UNCHANGED seenDrop
(* a long-lived handle is read again: still the winner's value, same address *)
TReread == /\ Ev("Reread")
           /\ cache[Rec[l].key] = Tok(Rec[l].tok) /\ ptr[Rec[l].key] = Rec[l].ptr
           /\ Adv /\ UNCHANGED <<vars, seenDrop, ptr>>
TDropCache == /\ Ev("DropCache") /\ DropCache /\ Adv /\ Keep
TFinal == /\ Ev("Final") /\ ~alive
          /\ \A n \in DOMAIN life : n \in seenDrop          \* nothing leaked, everything dropped
          /\ Adv /\ UNCHANGED <<vars, seenDrop, ptr>>
TReset == /\ Ev("Reset") /\ Adv
          /\ cache' = [k \in Keys |-> None] /\ pc' = [t \in Threads |-> "idle"]
          /\ op' = [t \in Threads |-> [name |-> "none", key |-> CHOOSE k \in Keys : TRUE]]
          /\ mine' = [t \in Threads |-> None] /\ ret' = [t \in Threads |-> None]
          /\ ncalls' = [t \in Threads |-> 0] /\ next' = 1 /\ life' = [n \in {} |-> "live"]
          /\ given' = [k \in Keys |-> {}] /\ everPresent' = {} /\ alive' = TRUE
          /\ seenDrop' = {} /\ ptr' = [k \in Keys |-> 0]

TraceNext == TBegin \/ TLookup \/ TProduce \/ TFail \/ TInsert \/ TDrop \/ TEnd \/ TReread \/ TDropCache \/ TFinal \/ TReset
TraceSpec == TraceInit /\ [][TraceNext]_tvars

Progress == IF l > TLCGet(1) THEN TLCSet(1, l) ELSE TRUE
TraceAccepted ==
    LET n == TLCGet(1) IN
    IF n = Len(Rec) + 1 THEN TRUE
    ELSE /\ PrintT(<<"UNMATCHED", n, ToJson(Rec[n])>>)
         /\ FALSE
=============================================================================
