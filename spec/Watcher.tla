------------------------------- MODULE Watcher -------------------------------
(***************************************************************************)
(* C12.  From a filesystem notification to the entries that are named.     *)
(*   PathOf   : entry -> path under the root   (utils/private.rs:21-37)    *)
(*   IdOfPath : reported path -> entry          (watcher.rs:61-85)          *)
(*   Named    : notification kind x path -> set of entries                 *)
(*              (watcher.rs:120-151)                                       *)
(* A path is a sequence of components below (or not below) a root; a       *)
(* component is a name, "." or "..".  The last component of a file path    *)
(* carries the stem and the extension.                                     *)
(*                                                                         *)
(*  FixRoot   = FALSE : as built, the root directory itself is never named *)
(*  FixRename = FALSE : as built, a rename names only the path (D10)       *)
(*  FixRemove = FALSE : as built, a removal names only the parent (D11)    *)
(***************************************************************************)
EXTENDS Naturals, Sequences, FiniteSets, TLC

CONSTANTS Names, ExtsW, MaxDepth, FixRoot, FixRename, FixRemove

None == [nil |-> TRUE]
Cur == [c |-> "cur"]
Par == [c |-> "par"]
N(n) == [c |-> "n", name |-> n]

FileE(id, ext) == [k |-> "file", id |-> id, ext |-> ext]
DirE(id) == [k |-> "dir", id |-> id]

(* all id sequences up to MaxDepth *)
RECURSIVE SeqsUpTo(_)
SeqsUpTo(n) == IF n = 0 THEN {<<>>} ELSE LET s == SeqsUpTo(n - 1) IN s \cup {Append(x, y) : x \in s, y \in Names}
Ids == SeqsUpTo(MaxDepth)
Entries == {FileE(id, e) : id \in Ids \ {<<>>}, e \in ExtsW} \cup {DirE(id) : id \in Ids}

(* A reported path: `under` says whether it starts with the watched root; comps are the *)
(* components after the root; a file's last component is [stem, ext].                  *)
Last(s) == s[Len(s)]
Front(s) == SubSeq(s, 1, Len(s) - 1)

(* path_of_entry: root.extend(id.split('.')); set_extension(ext) *)
PathOf(e) ==
    IF e.id = <<>> THEN <<>>
    ELSE IF e.k = "dir" THEN [i \in 1..Len(e.id) |-> N(e.id[i])]
    ELSE Append([i \in 1..(Len(e.id) - 1) |-> N(e.id[i])], [c |-> "f", stem |-> Last(e.id), ext |-> e.ext])

(* the id builder over the components of the parent *)
RECURSIVE Build(_, _)
Build(comps, acc) ==
    IF acc = None THEN None
    ELSE IF comps = <<>> THEN acc
    ELSE LET h == Head(comps) IN
         CASE h.c = "n"   -> Build(Tail(comps), [v |-> Append(acc.v, h.name)])
           [] h.c = "cur" -> Build(Tail(comps), acc)
           [] h.c = "par" -> IF acc.v = <<>> THEN None ELSE Build(Tail(comps), [v |-> Front(acc.v)])
           [] OTHER -> None

(* id_of_path(root, path) for a path below the root; isDir is what is_dir() says on disk *)
(* Path::components() (hence parent() and file_stem()) drops "." components *)
NoCur(comps) == SelectSeq(comps, LAMBDA c : c.c # "cur")

IdOfPath(rawComps, isDir) ==
    LET comps == NoCur(rawComps) IN
    IF comps = <<>>
    THEN IF FixRoot THEN DirE(<<>>) ELSE None        \* the parent of the root is not under the root
    ELSE LET last == Last(comps)
             par  == Build(Front(comps), [v |-> <<>>]) IN
         IF par = None \/ last.c \in {"cur", "par"} THEN None
         ELSE LET stem == IF last.c = "f" THEN last.stem ELSE last.name
                  ext  == IF last.c = "f" THEN last.ext ELSE ""
                  id   == Append(par.v, stem) IN
              IF isDir THEN DirE(id) ELSE FileE(id, ext)

(* other spellings of the same path: "." and "x/.." inserted in the parent part *)
Spellings(p) ==
    IF p = <<>> THEN {p}
    ELSE {p} \cup {<<Cur>> \o p} \cup {<<N(n), Par>> \o p : n \in Names}
         \* two consecutive parent components: every one of them takes one name back
         \cup {<<N(n), N(m), Par, Par>> \o p : n, m \in Names}
         \cup (IF Len(p) >= 2 THEN {SubSeq(p, 1, 1) \o <<N(n), N(m), Par, Par>> \o SubSeq(p, 2, Len(p)) : n, m \in Names} ELSE {})
         \cup (IF Len(p) >= 2 THEN {SubSeq(p, 1, 1) \o <<Cur>> \o SubSeq(p, 2, Len(p)),
                                   SubSeq(p, 1, 1) \o <<N(Head(p).name), Par>> \o SubSeq(p, 2, Len(p)) \o <<>>} \ {<<>>}
               ELSE {})

ParentPath(p) == Front(NoCur(p))

(* which paths a notification of a given kind names: the handler's table *)
PathsNamed(kind, p) ==
    CASE kind \in {"modify", "any"} -> {p}
      [] kind = "create" -> IF p = <<>> THEN {p} ELSE {p, ParentPath(p)}
      [] kind = "rename" -> IF FixRename /\ p # <<>> THEN {p, ParentPath(p)} ELSE {p}
      [] kind = "remove" -> IF p = <<>> THEN (IF FixRemove THEN {p} ELSE {}) ELSE IF FixRemove THEN {p, ParentPath(p)} ELSE {ParentPath(p)}
      [] OTHER -> {}

(* the entries named for a notification about entry e (which exists on disk, or existed) *)
KindOnDisk(e, kind, q, p) == IF q = p THEN (e.k = "dir" /\ kind # "remove") ELSE TRUE   \* the parent is a directory
NamedFor(e, kind, p) ==
    {x \in {IdOfPath(q, IF q = p THEN (e.k = "dir" /\ (kind # "remove" \/ FixRemove)) ELSE TRUE) : q \in PathsNamed(kind, p)} : x # None}

ParentEntry(e) == DirE(Front(e.id))

(* what the property asks for *)
Wanted(e, kind) ==
    IF kind \in {"modify", "any"} THEN {e}
    ELSE IF e.id = <<>> THEN {e}
    ELSE {e, ParentEntry(e)}

VARIABLES e, kind
vars == <<e, kind>>
Init == e \in Entries /\ kind \in {"modify", "any", "create", "rename", "remove"}
Next == UNCHANGED vars
Spec == Init /\ [][Next]_vars

(* ids and paths round-trip, whatever the spelling of the reported path *)
RoundTrip == \A p \in Spellings(PathOf(e)) : IdOfPath(p, e.k = "dir") = e
(* two different files, or two different directories, never share a path *)
Injective == \A o \in Entries : (o.k = e.k /\ PathOf(o) = PathOf(e)) => o = e
(* the event table names exactly the entry and, for create / rename / remove, its parent *)
TableExact == NamedFor(e, kind, PathOf(e)) = Wanted(e, kind)
==============================================================================
