SPECIFICATION Spec
CONSTANTS MaxWrites = 3 MaxPolls = 3 TwoLoads = FALSE
  BumpInsideLock = TRUE
INVARIANTS RidCounts NewAfterReport
PROPERTIES ToldIffWrites GlobalIffWrites
