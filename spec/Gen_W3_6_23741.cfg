SPECIFICATION GSpec
CONSTANTS
  Keys <- W3Keys
  Files <- W3Files
  DirsU = {}
  Scripts <- W3Scripts
  InitSrcs <- W3Srcs
  InitDirs = {}
  HasReloader = TRUE
  FixGoi = TRUE
  OrderFirst = TRUE
  Ops <- W3Ops
  N = 6
  Keep <- KeepAll
INVARIANT Emit
CHECK_DEADLOCK FALSE
