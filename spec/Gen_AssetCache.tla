--------------------------- MODULE Gen_AssetCache ---------------------------
(* Behaviour generator: client call sequences over a "world" (keys, files,   *)
(* scripts), each step with the specification's result and a snapshot of     *)
(* the cache; one JSON line per complete behaviour, replayed on the real     *)
(* crate by `amv cache-replay`.                                              *)
EXTENDS AssetCache, Json

CONSTANTS Ops,      \* the calls the client may make in this world (records)
          N,        \* behaviour length
          Keep(_)   \* which complete behaviours are emitted (a filter over the history)
VARIABLE hist
gvars == <<env, graph, toReload, evq, mode, ver, handled, d8, od, last, hist>>

Snap(E) == {[ty |-> k.ty, id |-> k.id, val |-> E.cache[k].val, rid |-> E.cache[k].rid, dyn |-> E.cache[k].dyn]
              : k \in {x \in Keys : E.cache[x] # None}}

ScriptList == {[ty |-> k.ty, id |-> k.id, script |-> Scripts[k]] : k \in DOMAIN Scripts}
SrcList(E) == {[id |-> f[1], ext |-> f[2], c |-> E.src[f]] : f \in {g \in Files : E.src[g] # None}}

World(E) == [op |-> "world", scripts |-> ScriptList, src |-> SrcList(E), dirs |-> InitDirs,
             hasR |-> HasReloader, keys |-> Keys]

(* the dependency graph as the reloader knows it: registered assets and their deps *)
GraphView(g) == {[ty |-> d.ty, id |-> d.id, deps |-> g[d].deps] : d \in {x \in DOMAIN g : x.k = "asset" /\ g[x].typ}}
NoView == {[none |-> TRUE]}

Do(o) ==
    CASE o.op = "load"     -> Load(o.k)
      [] o.op = "owned"    -> LoadOwned(o.k)
      [] o.op = "get"      -> GetCached(o.k)
      [] o.op = "contains" -> Contains(o.k)
      [] o.op = "goi"      -> GetOrInsert(o.k, o.n)
      [] o.op = "remove"   -> Remove(o.k)
      [] o.op = "take"     -> Take(o.k)
      [] o.op = "clear"    -> Clear
      [] o.op = "edit"     -> Edit(o.f, o.c)
      [] o.op = "mkdir"    -> MkDir(o.d)
      [] o.op = "rmdir"    -> RmDir(o.d)
      [] o.op = "arm"      -> Arm(o.what, o.at, o.kind)
      [] o.op = "disarm"   -> Disarm
      [] o.op = "send"     -> Send(o.batch)
      [] o.op = "sync"     -> Sync
      [] o.op = "notify"   -> Notify(o.batch)
      [] o.op = "editn"    -> EditNotify(o.f, o.c)
      [] o.op = "hot_reload" -> HotReload
      [] o.op = "enhance"  -> Enhance

GInit == Init /\ hist = <<World(env)>>

GNext == /\ Len(hist) <= N
         /\ \E o \in Ops : Do(o)
         /\ hist' = Append(hist, [step |-> last', snap |-> Snap(env'), d8 |-> d8', od |-> od',
                                g |-> IF last'.op \in {"notify", "sync"} THEN GraphView(graph') ELSE NoView])

GSpec == GInit /\ [][GNext]_gvars

KeepAll(h) == TRUE
CountOp(h, o) == Cardinality({i \in 2..Len(h) : h[i].step.op = o})
(* at least two reload passes, each after a notification: histories in which the dependency graph *)
(* is rewritten by one pass and used by the next                                                 *)
KeepTwoPasses(h) == CountOp(h, "hot_reload") >= 2 /\ CountOp(h, "notify") >= 2 /\ h[2].step.op = "load" /\ h[Len(h)].step.op = "hot_reload"

(* an asset is removed and loaded again (registered twice with the reloader), then a pass runs *)
KeepReReg(h) == CountOp(h, "remove") >= 1 /\ CountOp(h, "load") >= 2 /\ CountOp(h, "notify") >= 1 /\ h[2].step.op = "load" /\ h[Len(h)].step.op = "hot_reload"
(* a value is inserted under a key the reloader already knows (loaded, then removed or cleared), then a pass runs *)
KeepGoi(h) == CountOp(h, "goi") >= 1 /\ CountOp(h, "notify") >= 1 /\ CountOp(h, "remove") + CountOp(h, "clear") >= 1
              /\ h[2].step.op = "load" /\ h[Len(h)].step.op = "hot_reload"
(* a 'static cache from the second step on, then at least two notified batches *)
KeepStatic(h) == Len(h) >= 3 /\ h[2].step.op = "load" /\ h[3].step.op = "enhance" /\ CountOp(h, "enhance") = 1 /\ CountOp(h, "notify") >= 2
                 /\ h[Len(h)].step.op = "notify"
(* the cache is converted to a 'static one somewhere in a history that also notifies something *)
KeepEnh(h) == CountOp(h, "enhance") = 1 /\ CountOp(h, "notify") >= 1 /\ h[2].step.op = "load"
(* loads first, a batch of two entries somewhere, a pass at the end *)
KeepBatch2(h) == h[2].step.op = "load" /\ h[Len(h)].step.op = "hot_reload" /\ CountOp(h, "edit") >= 1
                 /\ \E i \in 3..Len(h) : h[i].step.op = "notify" /\ Cardinality(h[i].step.batch) = 2
(* some asset was actually reloaded *)
KeepReloaded(h) == \E i \in 2..Len(h) : \E e \in h[i].snap : e.rid > 0

Emit == (Len(hist) = N + 1 /\ Keep(hist)) => PrintT(<<"REPLAY", ToJson(hist)>>)
=============================================================================
