SPECIFICATION FairSpec
CONSTANTS MaxEdits = 3 MaxSends = 3 MaxCalls = 0 Static = TRUE
PROPERTIES Monotone AllDequeued EventuallyApplied
CHECK_DEADLOCK FALSE
