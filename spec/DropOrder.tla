------------------------------ MODULE DropOrder ------------------------------
(***************************************************************************)
(* C15, the order in which a dropped AssetCache lets go of its parts        *)
(* (src/cache.rs: fields `reloader`, `assets`, `source`, dropped in that    *)
(* order).  The reloader thread stops only because the HotReloader (the     *)
(* sender of cache messages) is dropped; a source gets exactly one shutdown *)
(* signal - its EventSender reports that nobody listens any more - and a    *)
(* source that owns a watcher may wait for it in its destructor (the        *)
(* "joining source").  With the reloader dropped first, the thread exits,   *)
(* the event receiver goes away and the source's destructor returns.  With  *)
(* the source dropped first the destructor waits for a thread that is never *)
(* told to stop: drop(cache) does not return.                               *)
(***************************************************************************)
EXTENDS Lifecycle

CONSTANT SourceDroppedFirst
VARIABLE dphase      \* "live" | "src" (the source's destructor is waiting) | "rel" | "done"
DVars == <<vars, dphase>>

DInit == Init /\ dphase = "live"
Live(A) == dphase = "live" /\ A /\ UNCHANGED dphase
ThreadStep == Reloader /\ UNCHANGED dphase

BeginDrop == /\ dphase = "live" /\ cacheAlive /\ waiting = 0
             /\ dphase' = "src"
             /\ IF SourceDroppedFirst THEN UNCHANGED vars ELSE DropCache
(* the joining source's destructor returns once the thread has dropped the event receiver *)
SourceDtor == /\ dphase = "src" /\ rpc = "exited"
              /\ senderAlive' = FALSE
              /\ dphase' = IF SourceDroppedFirst THEN "rel" ELSE "done"
              /\ UNCHANGED <<cmsgs, cacheAlive, waiting, events, evSelected, rpc, ready, idle, consumed, sentM, sentE, calls>>
RelDrop == /\ dphase = "rel" /\ cacheAlive' = FALSE /\ dphase' = "done"
           /\ UNCHANGED <<cmsgs, waiting, events, senderAlive, evSelected, rpc, ready, idle, consumed, sentM, sentE, calls>>

DNext == \/ ThreadStep
         \/ Live(SendMsg("add")) \/ Live(HotReload) \/ Live(SendEvent)
         \/ BeginDrop \/ SourceDtor \/ RelDrop
         \/ UNCHANGED DVars
DSpec == DInit /\ [][DNext]_DVars /\ WF_DVars(ThreadStep) /\ WF_DVars(SourceDtor) /\ WF_DVars(RelDrop)

DTypeOK == dphase \in {"live", "src", "rel", "done"}
(* drop(cache) returns *)
DropReturns == (dphase # "live") ~> (dphase = "done")
(* and the thread is gone by then *)
GoneWhenDropped == dphase = "done" => rpc = "exited"
==============================================================================
