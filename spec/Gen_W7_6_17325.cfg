SPECIFICATION GSpec
CONSTANTS
  Keys <- W7Keys
  Files <- W7Files
  DirsU = {}
  Scripts <- W7Scripts
  InitSrcs <- W7Srcs
  InitDirs = {}
  HasReloader = FALSE
  FixGoi = TRUE
  OrderFirst = TRUE
  Ops <- W7Ops
  N = 6
  Keep <- KeepAll
INVARIANT Emit
CHECK_DEADLOCK FALSE
