SPECIFICATION GSpec
CONSTANTS
  Keys <- W6Keys
  Files <- W6Files
  DirsU = {}
  Scripts <- W6Scripts
  InitSrcs <- W6Srcs
  InitDirs = {}
  HasReloader = TRUE
  FixGoi = TRUE
  OrderFirst = TRUE
  Ops <- W6Ops
  N = 6
  Keep <- KeepAll
INVARIANT Emit
CHECK_DEADLOCK FALSE
