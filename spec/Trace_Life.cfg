SPECIFICATION TraceSpec
CONSTANTS MaxMsgs = 100000000 MaxEvents = 100000000 MaxCalls = 100000000
  FixExitOnCacheDrop = TRUE
  FixKeepServing = TRUE
INVARIANTS NoSpin NoOrphanRequest EndsExited
CONSTRAINT Progress
POSTCONDITION TraceAccepted
CHECK_DEADLOCK FALSE
