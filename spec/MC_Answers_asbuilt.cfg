SPECIFICATION Spec
CONSTANTS
  c1 = c1 c2 = c2 c3 = c3 c4 = c4
  Callers <- C2
  MaxCalls = 2
  FixAnswerNotify = FALSE
  Spurious = FALSE
INVARIANTS TypeOK MutexOK OwnAnswer SlotForWaiter NoLostWakeup

