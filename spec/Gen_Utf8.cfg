SPECIFICATION Spec
CONSTANT MaxLen = 4
INVARIANT Emit
CHECK_DEADLOCK FALSE
