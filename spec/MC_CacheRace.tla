---------------------------- MODULE MC_CacheRace ----------------------------
EXTENDS CacheRace
CONSTANTS t1, t2, t3, k1, k2
T2 == {t1, t2}
T3 == {t1, t2, t3}
K1 == {k1}
K2 == {k1, k2}
AllOps == {"load", "get", "goi", "contains"}
LoadOps == {"load", "goi"}
=============================================================================
