SPECIFICATION GSpec
CONSTANTS
  Keys <- W5Keys
  Files <- W5Files
  DirsU = {"d.e"}
  Scripts <- W5Scripts
  InitSrcs <- W5Srcs
  InitDirs = {}
  HasReloader = TRUE
  FixGoi = TRUE
  OrderFirst = TRUE
  Ops <- W5Ops
  N = 5
INVARIANT Converged
CHECK_DEADLOCK FALSE
