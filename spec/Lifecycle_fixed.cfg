SPECIFICATION FairSpec
CONSTANTS MaxMsgs = 2 MaxEvents = 2 MaxCalls = 2
  FixExitOnCacheDrop = TRUE
  FixKeepServing = TRUE
INVARIANTS TypeOK NoSpin BlockedWhenIdle NoOrphanRequest
PROPERTIES GoesAway AllAnswered
CHECK_DEADLOCK FALSE
