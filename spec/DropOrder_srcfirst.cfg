SPECIFICATION DSpec
CONSTANTS MaxMsgs = 2 MaxEvents = 2 MaxCalls = 2
  FixExitOnCacheDrop = TRUE
  FixKeepServing = TRUE
  SourceDroppedFirst = TRUE
INVARIANTS DTypeOK NoSpin GoneWhenDropped
PROPERTIES DropReturns
CHECK_DEADLOCK FALSE
