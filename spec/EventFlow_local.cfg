SPECIFICATION FairSpec
CONSTANTS MaxEdits = 3 MaxSends = 3 MaxCalls = 4 Static = FALSE
PROPERTIES ReturnAppliesDequeued Monotone AllDequeued EventuallyApplied
CHECK_DEADLOCK FALSE
