SPECIFICATION Spec
CONSTANTS MaxWrites = 3 MaxPolls = 3 TwoLoads = TRUE
  BumpInsideLock = TRUE
INVARIANTS RidCounts NewAfterReport
PROPERTIES ToldIffWrites GlobalIffWrites
