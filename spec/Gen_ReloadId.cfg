SPECIFICATION GSpec
CONSTANTS
  Threads = {"t1"}
  MaxId = 2
  OpNames = {"update", "fetch_max", "swap", "store", "load"}
  MaxCalls = 100
  Atomic = TRUE
  N = 3
INVARIANT Emit
CHECK_DEADLOCK FALSE
