SPECIFICATION Spec
CONSTANTS
  FileNodes <- F2
  AssetNodes <- A2
  FixVisitMark = TRUE
INVARIANTS StackBounded NoDuplicate OrderValid
PROPERTY Terminates
CHECK_DEADLOCK FALSE
