---- MODULE WatcherSeq_TTrace_1790581570 ----
EXTENDS Sequences, WatcherSeq, TLCExt, Toolbox, Naturals, TLC

_expression ==
    LET WatcherSeq_TEExpression == INSTANCE WatcherSeq_TEExpression
    IN WatcherSeq_TEExpression!expression
----

_trace ==
    LET WatcherSeq_TETrace == INSTANCE WatcherSeq_TETrace
    IN WatcherSeq_TETrace!trace
----

_inv ==
    ~(
        TLCGet("level") = Len(_TETrace)
        /\
        buf = (<<>>)
        /\
        want = (<<"a">>)
        /\
        got = (<<"a", "a">>)
    )
----

_init ==
    /\ want = _TETrace[1].want
    /\ buf = _TETrace[1].buf
    /\ got = _TETrace[1].got
----

_next ==
    /\ \E i,j \in DOMAIN _TETrace:
        /\ \/ /\ j = i + 1
              /\ i = TLCGet("level")
        /\ want  = _TETrace[i].want
        /\ want' = _TETrace[j].want
        /\ buf  = _TETrace[i].buf
        /\ buf' = _TETrace[j].buf
        /\ got  = _TETrace[i].got
        /\ got' = _TETrace[j].got

\* Uncomment the ASSUME below to write the states of the error trace
\* to the given file in Json format. Note that you can pass any tuple
\* to `JsonSerialize`. For example, a sub-sequence of _TETrace.
    \* ASSUME
    \*     LET J == INSTANCE Json
    \*         IN J!JsonSerialize("WatcherSeq_TTrace_1790581570.json", _TETrace)

=============================================================================

 Note that you can extract this module `WatcherSeq_TEExpression`
  to a dedicated file to reuse `expression` (the module in the 
  dedicated `WatcherSeq_TEExpression.tla` file takes precedence 
  over the module `WatcherSeq_TEExpression` below).

---- MODULE WatcherSeq_TEExpression ----
EXTENDS Sequences, WatcherSeq, TLCExt, Toolbox, Naturals, TLC

expression == 
    [
        \* To hide variables of the `WatcherSeq` spec from the error trace,
        \* remove the variables below.  The trace will be written in the order
        \* of the fields of this record.
        want |-> want
        ,buf |-> buf
        ,got |-> got
        
        \* Put additional constant-, state-, and action-level expressions here:
        \* ,_stateNumber |-> _TEPosition
        \* ,_wantUnchanged |-> want = want'
        
        \* Format the `want` variable as Json value.
        \* ,_wantJson |->
        \*     LET J == INSTANCE Json
        \*     IN J!ToJson(want)
        
        \* Lastly, you may build expressions over arbitrary sets of states by
        \* leveraging the _TETrace operator.  For example, this is how to
        \* count the number of times a spec variable changed up to the current
        \* state in the trace.
        \* ,_wantModCount |->
        \*     LET F[s \in DOMAIN _TETrace] ==
        \*         IF s = 1 THEN 0
        \*         ELSE IF _TETrace[s].want # _TETrace[s-1].want
        \*             THEN 1 + F[s-1] ELSE F[s-1]
        \*     IN F[_TEPosition - 1]
    ]

=============================================================================



Parsing and semantic processing can take forever if the trace below is long.
 In this case, it is advised to uncomment the module below to deserialize the
 trace from a generated binary file.

\*
\*---- MODULE WatcherSeq_TETrace ----
\*EXTENDS IOUtils, WatcherSeq, TLC
\*
\*trace == IODeserialize("WatcherSeq_TTrace_1790581570.bin", TRUE)
\*
\*=============================================================================
\*

---- MODULE WatcherSeq_TETrace ----
EXTENDS WatcherSeq, TLC

trace == 
    <<
    ([buf |-> <<>>,want |-> <<"none">>,got |-> <<"none">>]),
    ([buf |-> <<>>,want |-> <<"a">>,got |-> <<"a">>]),
    ([buf |-> <<"a">>,want |-> <<"none">>,got |-> <<"none">>]),
    ([buf |-> <<>>,want |-> <<"a">>,got |-> <<"a", "a">>])
    >>
----


=============================================================================

---- CONFIG WatcherSeq_TTrace_1790581570 ----
CONSTANTS
    Names = { "a" , "b" }
    Dotted = { "x.y" }
    MaxLen = 3
    ResetFirst = FALSE
    PopNeedsDot = FALSE

INVARIANT
    _inv

CHECK_DEADLOCK
    \* CHECK_DEADLOCK off because of PROPERTY or INVARIANT above.
    FALSE

INIT
    _init

NEXT
    _next

CONSTANT
    _TETrace <- _trace

ALIAS
    _expression
=============================================================================
\* Generated on Mon Sep 28 07:46:11 UTC 2026