SPECIFICATION Spec
CONSTANTS MaxMsgs = 2 MaxEvents = 2 MaxCalls = 2
  FixExitOnCacheDrop = FALSE
  FixKeepServing = TRUE
INVARIANTS TypeOK NoSpin

CHECK_DEADLOCK FALSE
