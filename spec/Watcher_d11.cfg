SPECIFICATION Spec
CONSTANTS
  Names = {"a", "b"}
  ExtsW = {"", "x"}
  MaxDepth = 3
  FixRoot = TRUE
  FixRename = TRUE
  FixRemove = FALSE
INVARIANTS TableExact
CHECK_DEADLOCK FALSE
