------------------------------- MODULE AMTypes -------------------------------
(***************************************************************************)
(* Shared vocabulary of the assets_manager specifications: ids, entries,   *)
(* the type table, script instructions, and the PURE interpreter that      *)
(* says what a load computes.                                              *)
(*                                                                         *)
(* The interpreter transcribes, as recursive operators over an explicit    *)
(* environment record E and an explicit recorder R:                        *)
(*   - load_from_source / ErrorKind::or       src/asset.rs:187-208,        *)
(*                                            src/error.rs:42-54           *)
(*   - Cache::read / read_dir recording       src/anycache.rs:313-327      *)
(*   - get_cached_entry_inner / load_entry /  src/anycache.rs:333-372      *)
(*     load_owned_entry                                                    *)
(*   - load_and_record / add_asset            src/asset.rs:249-268         *)
(*   - records::record / no_record            src/hot_reloading/records.rs *)
(*   - Directory / RecursiveDirectory         src/dirs.rs:140-236          *)
(*   - get_or_insert                          src/anycache.rs:402-417      *)
(* The harness has one Rust type per row of the type table                 *)
(* (harness/src/assets.rs, nodes.rs) and the same script interpreter.      *)
(***************************************************************************)
EXTENDS Naturals, Sequences, FiniteSets, TLC

None == [nil |-> TRUE]

-----------------------------------------------------------------------------
(* Ids.  An id is a dotted path; the universe is fixed and small.  IdSeq is *)
(* the universe in the byte order Rust sorts strings by.                    *)
IdSeq == << "", "a", "b", "c", "c/a", "d", "d.a", "d.b", "d.e", "d.e.a" >>
AllIds == {IdSeq[i] : i \in 1..Len(IdSeq)}
Parent == [i \in AllIds |->
             CASE i \in {"", "a", "b", "c", "c/a", "d"} -> ""    \* "c/a" is a plain id that merely contains a slash
               [] i \in {"d.a", "d.b", "d.e"} -> "d"
               [] i = "d.e.a" -> "d.e"]
Exts == {"x", "y", "z", ""}

RECURSIVE Ancestors(_)
Ancestors(i) == IF i = "" THEN {} ELSE {Parent[i]} \cup Ancestors(Parent[i])

SortedIds(S) == SelectSeq(IdSeq, LAMBDA i : i \in S)

(* source entries / dependencies *)
FileE(id, ext) == [k |-> "file", id |-> id, ext |-> ext]
DirE(id)       == [k |-> "dir", id |-> id]
AssetD(key)    == [k |-> "asset", ty |-> key.ty, id |-> key.id]
Key(ty, id)    == [ty |-> ty, id |-> id]

-----------------------------------------------------------------------------
(* The type table (same rows as harness/src/assets.rs). *)
LeafTypes == {"L0", "L1", "L2", "L3", "L4", "L5", "L6", "L7"}
NodeTypes == {"N0", "N1", "N2", "N3", "N4", "N5"}
DirTypes  == {"DL0", "DL1", "DL2"}       \* Directory<Leaf<i>>
RDirTypes == {"RL0", "RL1"}              \* RecursiveDirectory<Leaf<i>>
StorTypes == {"S0"}                      \* a plain Storable (never loadable)
ArcTypes  == {"AL0", "AL2"}              \* Arc<Leaf<i>>: loads like Leaf<i>, reloadable iff Leaf<i> is
OnceTypes == {"OL0", "OL2"}              \* OnceInitCell<Option<Leaf<i>>, _>: same
Types == LeafTypes \cup NodeTypes \cup DirTypes \cup RDirTypes \cup StorTypes \cup ArcTypes \cup OnceTypes

TypeInfo == [ty \in Types |->
  CASE ty = "L0" -> [kind |-> "leaf", hot |-> TRUE,  exts |-> <<"x">>,           dflt |-> FALSE]
    [] ty = "L1" -> [kind |-> "leaf", hot |-> TRUE,  exts |-> <<"x", "y">>,      dflt |-> FALSE]
    [] ty = "L2" -> [kind |-> "leaf", hot |-> FALSE, exts |-> <<"x">>,           dflt |-> FALSE]
    [] ty = "L3" -> [kind |-> "leaf", hot |-> TRUE,  exts |-> <<"y", "x">>,      dflt |-> TRUE]
    [] ty = "L4" -> [kind |-> "leaf", hot |-> TRUE,  exts |-> <<>>,              dflt |-> FALSE]
    [] ty = "L5" -> [kind |-> "leaf", hot |-> TRUE,  exts |-> <<>>,              dflt |-> TRUE]
    [] ty = "L6" -> [kind |-> "leaf", hot |-> TRUE,  exts |-> <<"x", "y", "z">>, dflt |-> FALSE]
    [] ty = "L7" -> [kind |-> "leaf", hot |-> TRUE,  exts |-> <<"">>,            dflt |-> FALSE]
    [] ty \in {"N0", "N1", "N2", "N3"} -> [kind |-> "node", hot |-> TRUE,  exts |-> <<>>, dflt |-> FALSE]
    [] ty \in {"N4", "N5"}             -> [kind |-> "node", hot |-> FALSE, exts |-> <<>>, dflt |-> FALSE]
    [] ty = "DL0" -> [kind |-> "dir",  hot |-> TRUE, exts |-> <<>>, dflt |-> FALSE, of |-> "L0"]
    [] ty = "DL1" -> [kind |-> "dir",  hot |-> TRUE, exts |-> <<>>, dflt |-> FALSE, of |-> "L1"]
    [] ty = "DL2" -> [kind |-> "dir",  hot |-> TRUE, exts |-> <<>>, dflt |-> FALSE, of |-> "L2"]
    [] ty = "RL0" -> [kind |-> "rdir", hot |-> TRUE, exts |-> <<>>, dflt |-> FALSE, of |-> "L0", dirty |-> "DL0"]
    [] ty = "RL1" -> [kind |-> "rdir", hot |-> TRUE, exts |-> <<>>, dflt |-> FALSE, of |-> "L1", dirty |-> "DL1"]
    [] ty = "S0"  -> [kind |-> "stor", hot |-> FALSE, exts |-> <<>>, dflt |-> FALSE]
    [] ty = "AL0" -> [kind |-> "arc", hot |-> TRUE,  exts |-> <<>>, dflt |-> FALSE, of |-> "L0"]
    [] ty = "AL2" -> [kind |-> "arc", hot |-> FALSE, exts |-> <<>>, dflt |-> FALSE, of |-> "L2"]
    [] ty = "OL0" -> [kind |-> "arc", hot |-> TRUE,  exts |-> <<>>, dflt |-> FALSE, of |-> "L0"]
    [] ty = "OL2" -> [kind |-> "arc", hot |-> FALSE, exts |-> <<>>, dflt |-> FALSE, of |-> "L2"]]

SeqToSet(s) == {s[i] : i \in 1..Len(s)}

-----------------------------------------------------------------------------
(* File contents.  Absent = None. *)
CVal(n)   == [c |-> "v", n |-> n]          \* decodable: "v<n>"
CBad      == [c |-> "bad"]                 \* readable, undecodable
CIo(kind) == [c |-> "io", kind |-> kind]   \* reading fails: "denied" | "other" | "notfound"
CRef(id)  == [c |-> "ref", to |-> id]      \* "@<id>": names another id (undecodable as a leaf)

(* Errors.  A base error knows which extension produced it. *)
ENoDefault     == [e |-> "nodefault"]
EIo(kind, ext) == [e |-> "io", kind |-> kind, ext |-> ext]
EConv(ext)     == [e |-> "conv", ext |-> ext]
EScript        == [e |-> "script"]          \* the compound's own load function returned Err
EPanic         == [e |-> "panic"]
EWrap(id, inner) == [e |-> "wrap", id |-> id, inner |-> inner]   \* assets_manager::Error

(* ErrorKind::or -- self = new, other = accumulated (src/error.rs:42-54) *)
ErrOr(new, acc) ==
    CASE new.e = "nodefault" -> acc
      [] new.e = "io" /\ acc.e = "conv" -> acc
      [] new.e = "io" /\ acc.e = "io" /\ new.kind = "notfound" -> acc
      [] OTHER -> new

Rank(err) == CASE err.e = "conv" -> 3
               [] err.e = "io" /\ err.kind # "notfound" -> 2
               [] err.e = "io" -> 1
               [] OTHER -> 0

(* Values *)
VLeaf(n, ext) == [t |-> "leaf", c |-> n, ext |-> ext]
VDefault      == [t |-> "default"]
VNode(obs)    == [t |-> "node", obs |-> obs]
VDir(ids)     == [t |-> "dir", ids |-> ids]
VStor(n)      == [t |-> "stor", c |-> n]

(* Observations made by a script instruction *)
OVal(v)   == [o |-> "val", v |-> v]
OErr      == [o |-> "err"]
ONone     == [o |-> "none"]
OBool(b)  == [o |-> "bool", b |-> b]
OBytes(c) == [o |-> "bytes", c |-> c]
OEnts(s)  == [o |-> "ents", s |-> s]
OBlind(v) == [o |-> "blind", v |-> v]    \* what a no_record block observed: nothing promises that it is followed
OCaught   == [o |-> "caught"]

-----------------------------------------------------------------------------
(* Script instructions *)
IRead(id, ext)          == [op |-> "read", id |-> id, ext |-> ext]
IReadDir(id)            == [op |-> "readdir", id |-> id]
ILoad(ty, id, req)      == [op |-> "load", ty |-> ty, id |-> id, req |-> req]
IOwned(ty, id, req)     == [op |-> "owned", ty |-> ty, id |-> id, req |-> req]
(* presence observations are tracked only while a reload pass evaluates one of its members *)
Look(E, kk) == IF E.track THEN [E EXCEPT !.looked = @ \cup {kk}] ELSE E

IGet(ty, id)            == [op |-> "get", ty |-> ty, id |-> id]
IContains(ty, id)       == [op |-> "contains", ty |-> ty, id |-> id]
IGoi(ty, id, n)         == [op |-> "goi", ty |-> ty, id |-> id, n |-> n]
IIndirect(id, ext, ty, req) == [op |-> "indirect", id |-> id, ext |-> ext, ty |-> ty, req |-> req]
IIndirectNR(id, ext, ty, req) == [op |-> "indirectnr", id |-> id, ext |-> ext, ty |-> ty, req |-> req]
INoRec(body)            == [op |-> "norec", body |-> body]
IReadReq(id, ext)       == [op |-> "readreq", id |-> id, ext |-> ext]    \* the script fails if the read fails
ITry(body)              == [op |-> "try", body |-> body]                 \* catch_unwind around the body
IFail                   == [op |-> "fail"]
IPanic                  == [op |-> "panic"]

-----------------------------------------------------------------------------
(* The evaluation environment.                                              *)
(*   cache : Key -> None | entry        src, dirs, baddirs : the source     *)
(*   hasR  : the cache has a reloader   msgs : AddAsset messages sent       *)
(*   gen   : next value token           nread/nrdir/nldr : call counters    *)
(*   fault : None | [what, at, kind]    dropped : tokens dropped on the way *)
(*   unrec : reloadable assets looked up while no recorder was active       *)
(*   looked: keys whose presence the evaluation in progress observed        *)
(*           (get / contains / get_or_insert)                               *)
(*   fhit  : an injected fault hit during the evaluation in progress        *)
(*   taint : keys whose current value was computed while a fault hit        *)
(* A cache entry: [val, dyn, rid, origin, tok].                             *)
Entry(val, dyn, origin, tok) == [val |-> val, dyn |-> dyn, rid |-> 0, origin |-> origin, tok |-> tok]

RecOff == [on |-> FALSE, deps |-> {}]
RecNew == [on |-> TRUE, deps |-> {}]
RecAdd(R, d, E) == IF R.on /\ E.hasR THEN [R EXCEPT !.deps = @ \cup {d}] ELSE R

IsHot(ty, E) == TypeInfo[ty].hot /\ E.hasR

FileContent(E, id, ext) == E.src[<<id, ext>>]

FilePresent(E, f) == E.src[f] # None

DirExists(E, d) ==
    \/ d = ""
    \/ d \in E.dirs
    \/ \E f \in DOMAIN E.src : FilePresent(E, f) /\ d \in Ancestors(f[1])
    \/ \E dd \in E.dirs : d \in Ancestors(dd)

(* direct children of directory d, as a set of entries *)
Children(E, d) ==
    {FileE(f[1], f[2]) : f \in {g \in DOMAIN E.src : FilePresent(E, g) /\ Parent[g[1]] = d /\ g[1] # ""}}
    \cup {DirE(dd) : dd \in {x \in AllIds : x # "" /\ Parent[x] = d /\ DirExists(E, x)}}

FaultHits(E, what, n) == E.fault # None /\ E.fault.what = what /\ E.fault.at = n

(* Source::read through the cache: records File(id, ext), then reads. *)
DoRead(E, R, id, ext) ==
    LET R1 == RecAdd(R, FileE(id, ext), E)
        c  == FileContent(E, id, ext)
        st == IF FaultHits(E, "read", E.nread) THEN [s |-> "io", kind |-> E.fault.kind]
              ELSE IF c = None THEN [s |-> "io", kind |-> "notfound"]
              ELSE IF c.c = "io" THEN [s |-> "io", kind |-> c.kind]
              ELSE [s |-> "ok", c |-> c]
    IN [E |-> [E EXCEPT !.nread = @ + 1, !.reads = Append(@, FileE(id, ext)),
                        !.fhit = @ \/ FaultHits(E, "read", E.nread)], R |-> R1, st |-> st]

DoReadDir(E, R, id) ==
    LET R1 == RecAdd(R, DirE(id), E)
        st == IF FaultHits(E, "readdir", E.nrdir) THEN [s |-> "io", kind |-> E.fault.kind]
              ELSE IF id \in DOMAIN E.baddirs THEN [s |-> "io", kind |-> E.baddirs[id]]
              ELSE IF ~DirExists(E, id) THEN [s |-> "io", kind |-> "notfound"]
              ELSE [s |-> "ok", ents |-> Children(E, id)]
    IN [E |-> [E EXCEPT !.nrdir = @ + 1, !.reads = Append(@, DirE(id)),
                        !.fhit = @ \/ FaultHits(E, "readdir", E.nrdir)], R |-> R1, st |-> st]

(* The loader of a leaf type on one file content. *)
DoDecode(E, c, ext) ==
    LET E1 == [E EXCEPT !.nldr = @ + 1, !.fhit = @ \/ FaultHits(E, "loader", E.nldr) \/ FaultHits(E, "panic", E.nldr)] IN
    IF FaultHits(E, "loader", E.nldr) THEN [E |-> E1, ok |-> FALSE, err |-> EConv(ext), panic |-> FALSE]
    ELSE IF FaultHits(E, "panic", E.nldr) THEN [E |-> E1, ok |-> FALSE, err |-> EPanic, panic |-> TRUE]
    ELSE IF c.c = "v" THEN [E |-> E1, ok |-> TRUE, val |-> VLeaf(c.n, ext), panic |-> FALSE]
    ELSE [E |-> E1, ok |-> FALSE, err |-> EConv(ext), panic |-> FALSE]

(* load_from_source: first extension that reads and decodes wins; errors are *)
(* folded with ErrOr; then default_value decides.                            *)
RECURSIVE LeafExts(_, _, _, _, _)
LeafExts(E, R, k, i, err) ==
    LET info == TypeInfo[k.ty] IN
    IF i > Len(info.exts)
    THEN IF info.dflt THEN [E |-> E, R |-> R, ok |-> TRUE, val |-> VDefault, panic |-> FALSE]
                      ELSE [E |-> E, R |-> R, ok |-> FALSE, err |-> err, panic |-> FALSE]
    ELSE LET ext == info.exts[i]
             rd  == DoRead(E, R, k.id, ext) IN
         IF rd.st.s = "ok"
         THEN LET d == DoDecode(rd.E, rd.st.c, ext) IN
              IF d.ok THEN [E |-> d.E, R |-> rd.R, ok |-> TRUE, val |-> d.val, panic |-> FALSE]
              ELSE IF d.panic THEN [E |-> d.E, R |-> rd.R, ok |-> FALSE, err |-> EPanic, panic |-> TRUE]
              ELSE LeafExts(d.E, rd.R, k, i + 1, ErrOr(EConv(ext), err))
         ELSE LeafExts(rd.E, rd.R, k, i + 1, ErrOr(EIo(rd.st.kind, ext), err))

(* ids a Directory<T> lists: files directly inside with one of T's extensions *)
DirIds(E, d, ofTy) ==
    {f[1] : f \in {g \in DOMAIN E.src : FilePresent(E, g) /\ g[1] # "" /\ Parent[g[1]] = d
                                       /\ g[2] \in SeqToSet(TypeInfo[ofTy].exts)}}

-----------------------------------------------------------------------------
(* The interpreter proper.  Every operator returns a record with at least   *)
(* E (environment), R (recorder of the caller, updated), ok, and            *)
(* val | err, panic.                                                        *)
RECURSIVE LoadKey(_, _, _, _, _), Body(_, _, _, _), RunScript(_, _, _, _, _, _, _),
          Instr(_, _, _, _, _), RecChildren(_, _, _, _, _, _, _)

Fail(E, R, err, panic) == [E |-> E, R |-> R, ok |-> FALSE, err |-> err, panic |-> panic]

(* mode "load": get-or-(load then insert).  mode "owned": load_owned.       *)
(* mode "reload": re-run the load of a cached key (no look-up, no insert).  *)
LoadKey(Ein, R, k, mode, scripts) ==
    LET hot == IsHot(k.ty, Ein)
        R1  == IF hot /\ mode # "reload" THEN RecAdd(R, AssetD(k), Ein) ELSE R
        \* a look-up of a reloadable asset that nobody records (no_record, or top level)
        E   == IF hot /\ mode # "reload" /\ ~R.on THEN [Ein EXCEPT !.unrec = @ \cup {AssetD(k)}] ELSE Ein
    IN
    IF mode = "load" /\ E.cache[k] # None
    THEN [E |-> E, R |-> R1, ok |-> TRUE, val |-> E.cache[k].val, panic |-> FALSE, hit |-> TRUE]
    ELSE
      LET inner == IF hot THEN RecNew ELSE R1
          b0    == Body([E EXCEPT !.fhit = FALSE], inner, k, scripts)
          \* did an injected fault hit while k's value was being computed (history, for C05's antecedent)
          hit   == b0.E.fhit
          b     == [b0 EXCEPT !.E = [b0.E EXCEPT !.fhit = E.fhit \/ hit,
                                                 !.taint = IF ~b0.ok THEN @ ELSE IF hit THEN @ \cup {k} ELSE @ \ {k}]]
          Rout  == IF hot THEN R1 ELSE b.R
      IN
      IF b.ok
      THEN LET E2 == IF hot /\ mode # "reload"
                     THEN [b.E EXCEPT !.msgs = Append(@, [key |-> k, deps |-> b.R.deps])]
                     ELSE b.E
               tok == E2.gen
               E3  == [E2 EXCEPT !.gen = @ + 1]
           IN
           IF mode = "load"
           THEN IF E3.cache[k] = None
                THEN [E |-> [E3 EXCEPT !.cache[k] = Entry(b.val, hot, "load", tok)],
                      R |-> Rout, ok |-> TRUE, val |-> b.val, panic |-> FALSE, hit |-> FALSE]
                ELSE \* the load itself cached k (self look-up): first writer wins, ours is dropped
                     [E |-> [E3 EXCEPT !.dropped = @ \cup {tok}],
                      R |-> Rout, ok |-> TRUE, val |-> E3.cache[k].val, panic |-> FALSE, hit |-> FALSE]
           ELSE [E |-> E3, R |-> Rout, ok |-> TRUE, val |-> b.val, panic |-> FALSE, hit |-> FALSE,
                 tok |-> tok, deps |-> b.R.deps]
      ELSE [E |-> b.E, R |-> Rout, ok |-> FALSE,
            err |-> IF b.panic THEN EPanic ELSE EWrap(k.id, b.err), panic |-> b.panic]

(* what the type's load function does *)
Body(E, R, k, scripts) ==
    LET info == TypeInfo[k.ty] IN
    CASE info.kind = "leaf" -> LeafExts(E, R, k, 1, ENoDefault)
      [] info.kind = "arc"  -> LeafExts(E, R, Key(info.of, k.id), 1, ENoDefault)   \* Arc<T>::load = T::load, under the Arc's own key
      [] info.kind = "node" -> RunScript(E, R, k, scripts[k], 1, <<>>, scripts)
      [] info.kind = "dir" ->
            LET rd == DoReadDir(E, R, k.id) IN
            IF rd.st.s = "ok"
            THEN [E |-> rd.E, R |-> rd.R, ok |-> TRUE, panic |-> FALSE,
                  val |-> VDir(SortedIds(DirIds(E, k.id, info.of)))]
            ELSE Fail(rd.E, rd.R, EIo(rd.st.kind, ""), FALSE)
      [] info.kind = "rdir" ->
            LET own == LoadKey(E, R, Key(info.dirty, k.id), "load", scripts) IN
            IF ~own.ok THEN Fail(own.E, own.R, own.err, own.panic)
            ELSE LET rd == DoReadDir(own.E, own.R, k.id) IN
                 IF rd.st.s # "ok" THEN Fail(rd.E, rd.R, EIo(rd.st.kind, ""), FALSE)
                 ELSE LET subs == SortedIds({e.id : e \in {x \in rd.st.ents : x.k = "dir"}})
                          rc   == RecChildren(rd.E, rd.R, k, subs, 1, SeqToSet(own.val.ids), scripts)
                      IN IF rc.panic THEN Fail(rc.E, rc.R, EPanic, TRUE)
                         ELSE [E |-> rc.E, R |-> rc.R, ok |-> TRUE, panic |-> FALSE,
                               val |-> VDir(SortedIds(rc.ids))]
      [] OTHER -> Fail(E, R, EScript, FALSE)

(* RecursiveDirectory: children are loaded, their errors ignored *)
RecChildren(E, R, k, subs, i, ids, scripts) ==
    IF i > Len(subs) THEN [E |-> E, R |-> R, ids |-> ids, panic |-> FALSE]
    ELSE LET c == LoadKey(E, R, Key(k.ty, subs[i]), "load", scripts) IN
         IF c.panic THEN [E |-> c.E, R |-> c.R, ids |-> ids, panic |-> TRUE]
         ELSE RecChildren(c.E, c.R, k, subs, i + 1,
                          IF c.ok THEN ids \cup SeqToSet(c.val.ids) ELSE ids, scripts)

(* one instruction: returns [E, R, obs, stop] ; stop = None or the error the *)
(* script returns with `?`                                                    *)
Step(E, R, obs, stop, panic) == [E |-> E, R |-> R, obs |-> obs, stop |-> stop, panic |-> panic]

Instr(E, R, k, ins, scripts) ==
    CASE ins.op = "read" ->
            LET rd == DoRead(E, R, ins.id, ins.ext) IN
            Step(rd.E, rd.R, IF rd.st.s = "ok" THEN OBytes(rd.st.c) ELSE OErr, None, FALSE)
      [] ins.op = "readreq" ->
            LET rd == DoRead(E, R, ins.id, ins.ext) IN
            IF rd.st.s = "ok" THEN Step(rd.E, rd.R, OBytes(rd.st.c), None, FALSE)
            ELSE Step(rd.E, rd.R, OErr, EScript, FALSE)
      [] ins.op = "try" ->
            \* a panic inside the body is caught by the load itself; the recorder in force is the same
            \* object before and after (nested recorders were restored while unwinding)
            LET b == RunScript(E, R, k, ins.body, 1, <<>>, scripts) IN
            IF b.ok THEN Step(b.E, b.R, OVal(b.val), None, FALSE)
            ELSE IF b.panic THEN Step(b.E, b.R, OCaught, None, FALSE)
            ELSE Step(b.E, b.R, OErr, b.err, FALSE)
      [] ins.op = "readdir" ->
            LET rd == DoReadDir(E, R, ins.id) IN
            Step(rd.E, rd.R, IF rd.st.s = "ok" THEN OEnts(rd.st.ents) ELSE OErr, None, FALSE)
      [] ins.op \in {"load", "owned"} ->
            LET r == LoadKey(E, R, Key(ins.ty, ins.id), ins.op, scripts) IN
            IF r.ok THEN Step(IF ins.op = "owned" THEN [r.E EXCEPT !.dropped = @ \cup {r.tok}] ELSE r.E,
                              r.R, OVal(r.val), None, FALSE)
            ELSE IF r.panic THEN Step(r.E, r.R, OErr, EPanic, TRUE)
            ELSE Step(r.E, r.R, OErr, IF ins.req THEN r.err ELSE None, FALSE)
      [] ins.op = "get" ->
            LET kk == Key(ins.ty, ins.id)
                R1 == IF IsHot(ins.ty, E) THEN RecAdd(R, AssetD(kk), E) ELSE R IN
            Step(IF IsHot(ins.ty, E) /\ ~R.on THEN [Look(E, kk) EXCEPT !.unrec = @ \cup {AssetD(kk)}] ELSE Look(E, kk),
                 R1, IF E.cache[kk] = None THEN ONone ELSE OVal(E.cache[kk].val), None, FALSE)
      [] ins.op = "contains" ->
            Step(Look(E, Key(ins.ty, ins.id)), R, OBool(E.cache[Key(ins.ty, ins.id)] # None), None, FALSE)
      [] ins.op = "goi" ->
            LET kk == Key(ins.ty, ins.id)
                R1 == IF IsHot(ins.ty, E) THEN RecAdd(R, AssetD(kk), E) ELSE R
                tok == E.gen
                E1 == [Look(E, kk) EXCEPT !.gen = @ + 1] IN
            IF E.cache[kk] # None
            THEN Step([E1 EXCEPT !.dropped = @ \cup {tok}], R1, OVal(E.cache[kk].val), None, FALSE)
            ELSE Step([E1 EXCEPT !.cache[kk] = Entry(VStor(ins.n), IF E.fixGoi THEN FALSE ELSE IsHot(ins.ty, E), "insert", tok)],
                      R1, OVal(VStor(ins.n)), None, FALSE)
      [] ins.op = "indirect" ->
            LET rd == DoRead(E, R, ins.id, ins.ext) IN
            IF rd.st.s # "ok" \/ rd.st.c.c # "ref"
            THEN Step(rd.E, rd.R, OErr, IF ins.req THEN EScript ELSE None, FALSE)
            ELSE LET r == LoadKey(rd.E, rd.R, Key(ins.ty, rd.st.c.to), "load", scripts) IN
                 IF r.ok THEN Step(r.E, r.R, OVal(r.val), None, FALSE)
                 ELSE IF r.panic THEN Step(r.E, r.R, OErr, EPanic, TRUE)
                 ELSE Step(r.E, r.R, OErr, IF ins.req THEN r.err ELSE None, FALSE)
      [] ins.op = "indirectnr" ->
            \* the selector file is read inside no_record (nothing recorded for it), what it selects is loaded
            \* under the caller's recorder: the recorded set can shrink to exactly nothing
            LET rd == DoRead(E, RecOff, ins.id, ins.ext) IN
            IF rd.st.s # "ok" \/ rd.st.c.c # "ref"
            THEN Step(rd.E, R, OErr, IF ins.req THEN EScript ELSE None, FALSE)
            ELSE LET r == LoadKey(rd.E, R, Key(ins.ty, rd.st.c.to), "load", scripts) IN
                 IF r.ok THEN Step(r.E, r.R, OVal(r.val), None, FALSE)
                 ELSE IF r.panic THEN Step(r.E, r.R, OErr, EPanic, TRUE)
                 ELSE Step(r.E, r.R, OErr, IF ins.req THEN r.err ELSE None, FALSE)
      [] ins.op = "norec" ->
            \* records::no_record: a None recorder for the body; the caller's is restored
            LET b == RunScript(E, RecOff, k, ins.body, 1, <<>>, scripts) IN
            IF b.ok THEN Step(b.E, R, OBlind(b.val), None, FALSE)
            ELSE Step(b.E, R, OErr, b.err, b.panic)
      [] ins.op = "fail"  -> Step(E, R, OErr, EScript, FALSE)
      [] ins.op = "panic" -> Step(E, R, OErr, EPanic, TRUE)

RunScript(E, R, k, script, i, acc, scripts) ==
    IF i > Len(script)
    THEN [E |-> E, R |-> R, ok |-> TRUE, val |-> VNode(acc), panic |-> FALSE]
    ELSE LET s == Instr(E, R, k, script[i], scripts) IN
         IF s.stop # None THEN Fail(s.E, s.R, s.stop, s.panic)
         ELSE RunScript(s.E, s.R, k, script, i + 1, Append(acc, s.obs), scripts)

-----------------------------------------------------------------------------
(* A value with what its no_record blocks observed removed (at every depth). *)
RECURSIVE StripV(_)
StripV(v) ==
    IF "t" \in DOMAIN v /\ v.t = "node"
    THEN [v EXCEPT !.obs = [i \in DOMAIN v.obs |->
            LET o == v.obs[i] IN
            IF o.o = "blind" THEN [o |-> "blind"]
            ELSE IF o.o = "val" THEN [o EXCEPT !.v = StripV(o.v)]
            ELSE o]]
    ELSE v

(* What loading k afresh from the current source and current cache gives.  *)
(* (No reloader, nothing inserted: the value only.)                         *)
Fresh(E, k, scripts) ==
    LET r == LoadKey([E EXCEPT !.hasR = FALSE, !.fault = None], RecOff, k, "owned", scripts) IN
    IF r.ok THEN [ok |-> TRUE, val |-> r.val] ELSE [ok |-> FALSE]
=============================================================================
