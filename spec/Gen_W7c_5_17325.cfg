SPECIFICATION GSpec
CONSTANTS
  Keys <- W7cKeys
  Files <- W7Files
  DirsU = {}
  Scripts <- W7cScripts
  InitSrcs <- W7Srcs
  InitDirs = {}
  HasReloader = TRUE
  FixGoi = TRUE
  OrderFirst = TRUE
  Ops <- W7cOps
  N = 5
  Keep <- KeepAll
INVARIANT Emit
CHECK_DEADLOCK FALSE
