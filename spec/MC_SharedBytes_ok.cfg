SPECIFICATION Spec
CONSTANTS t1 = t1 t2 = t2 t3 = t3
  Threads <- T3
  MaxHandles = 4
  FreeWhenOld = 1
INVARIANTS CountIsHandles NoUseAfterFree ContentConst FreeOnce FreedWhenAllDropped LayoutMatches
CHECK_DEADLOCK FALSE
