----------------------------- MODULE MC_Reloader -----------------------------
EXTENDS Reloader
F2 == {FileE("a", "x"), FileE("b", "x")}
F1 == {FileE("a", "x")}
A2 == {AssetD(Key("N0", "a")), AssetD(Key("N1", "b"))}
A3 == A2 \cup {AssetD(Key("N2", "c"))}
=============================================================================
