SPECIFICATION Spec
CONSTANTS r1 = r1 r2 = r2
  Readers <- R2
  W = 3
  MaxWrites = 2
  MaxReads = 2
  Locked = TRUE
  AnswerAfterPass = TRUE
  StaticMode = FALSE
INVARIANTS NoTornRead Pinned
PROPERTIES PinnedStep ChangeOnlyInHotReload ReturnAfterPass
CHECK_DEADLOCK FALSE
