---- MODULE DropOrder_TTrace_1790583941 ----
EXTENDS Sequences, TLCExt, Toolbox, Naturals, TLC, DropOrder

_expression ==
    LET DropOrder_TEExpression == INSTANCE DropOrder_TEExpression
    IN DropOrder_TEExpression!expression
----

_trace ==
    LET DropOrder_TETrace == INSTANCE DropOrder_TETrace
    IN DropOrder_TETrace!trace
----

_prop ==
    ~<>[](
        consumed = (FALSE)
        /\
        rpc = ("select")
        /\
        waiting = (0)
        /\
        idle = (0)
        /\
        dphase = ("src")
        /\
        sentE = (0)
        /\
        evSelected = (TRUE)
        /\
        senderAlive = (TRUE)
        /\
        sentM = (0)
        /\
        cmsgs = ([add |-> 0, clear |-> 0, static |-> 0, ptr |-> 0])
        /\
        calls = (0)
        /\
        ready = (0)
        /\
        cacheAlive = (TRUE)
        /\
        events = (0)
    )
----

_init ==
    /\ ready = _TETrace[1].ready
    /\ events = _TETrace[1].events
    /\ sentE = _TETrace[1].sentE
    /\ sentM = _TETrace[1].sentM
    /\ idle = _TETrace[1].idle
    /\ dphase = _TETrace[1].dphase
    /\ senderAlive = _TETrace[1].senderAlive
    /\ cacheAlive = _TETrace[1].cacheAlive
    /\ consumed = _TETrace[1].consumed
    /\ rpc = _TETrace[1].rpc
    /\ cmsgs = _TETrace[1].cmsgs
    /\ evSelected = _TETrace[1].evSelected
    /\ waiting = _TETrace[1].waiting
    /\ calls = _TETrace[1].calls
----

_next ==
    /\ \E i,j \in DOMAIN _TETrace:
        /\ \/ /\ j = i + 1
              /\ i = TLCGet("level")
        /\ ready  = _TETrace[i].ready
        /\ ready' = _TETrace[j].ready
        /\ events  = _TETrace[i].events
        /\ events' = _TETrace[j].events
        /\ sentE  = _TETrace[i].sentE
        /\ sentE' = _TETrace[j].sentE
        /\ sentM  = _TETrace[i].sentM
        /\ sentM' = _TETrace[j].sentM
        /\ idle  = _TETrace[i].idle
        /\ idle' = _TETrace[j].idle
        /\ dphase  = _TETrace[i].dphase
        /\ dphase' = _TETrace[j].dphase
        /\ senderAlive  = _TETrace[i].senderAlive
        /\ senderAlive' = _TETrace[j].senderAlive
        /\ cacheAlive  = _TETrace[i].cacheAlive
        /\ cacheAlive' = _TETrace[j].cacheAlive
        /\ consumed  = _TETrace[i].consumed
        /\ consumed' = _TETrace[j].consumed
        /\ rpc  = _TETrace[i].rpc
        /\ rpc' = _TETrace[j].rpc
        /\ cmsgs  = _TETrace[i].cmsgs
        /\ cmsgs' = _TETrace[j].cmsgs
        /\ evSelected  = _TETrace[i].evSelected
        /\ evSelected' = _TETrace[j].evSelected
        /\ waiting  = _TETrace[i].waiting
        /\ waiting' = _TETrace[j].waiting
        /\ calls  = _TETrace[i].calls
        /\ calls' = _TETrace[j].calls

\* Uncomment the ASSUME below to write the states of the error trace
\* to the given file in Json format. Note that you can pass any tuple
\* to `JsonSerialize`. For example, a sub-sequence of _TETrace.
    \* ASSUME
    \*     LET J == INSTANCE Json
    \*         IN J!JsonSerialize("DropOrder_TTrace_1790583941.json", _TETrace)

=============================================================================

 Note that you can extract this module `DropOrder_TEExpression`
  to a dedicated file to reuse `expression` (the module in the 
  dedicated `DropOrder_TEExpression.tla` file takes precedence 
  over the module `DropOrder_TEExpression` below).

---- MODULE DropOrder_TEExpression ----
EXTENDS Sequences, TLCExt, Toolbox, Naturals, TLC, DropOrder

expression == 
    [
        \* To hide variables of the `DropOrder` spec from the error trace,
        \* remove the variables below.  The trace will be written in the order
        \* of the fields of this record.
        ready |-> ready
        ,events |-> events
        ,sentE |-> sentE
        ,sentM |-> sentM
        ,idle |-> idle
        ,dphase |-> dphase
        ,senderAlive |-> senderAlive
        ,cacheAlive |-> cacheAlive
        ,consumed |-> consumed
        ,rpc |-> rpc
        ,cmsgs |-> cmsgs
        ,evSelected |-> evSelected
        ,waiting |-> waiting
        ,calls |-> calls
        
        \* Put additional constant-, state-, and action-level expressions here:
        \* ,_stateNumber |-> _TEPosition
        \* ,_readyUnchanged |-> ready = ready'
        
        \* Format the `ready` variable as Json value.
        \* ,_readyJson |->
        \*     LET J == INSTANCE Json
        \*     IN J!ToJson(ready)
        
        \* Lastly, you may build expressions over arbitrary sets of states by
        \* leveraging the _TETrace operator.  For example, this is how to
        \* count the number of times a spec variable changed up to the current
        \* state in the trace.
        \* ,_readyModCount |->
        \*     LET F[s \in DOMAIN _TETrace] ==
        \*         IF s = 1 THEN 0
        \*         ELSE IF _TETrace[s].ready # _TETrace[s-1].ready
        \*             THEN 1 + F[s-1] ELSE F[s-1]
        \*     IN F[_TEPosition - 1]
    ]

=============================================================================



Parsing and semantic processing can take forever if the trace below is long.
 In this case, it is advised to uncomment the module below to deserialize the
 trace from a generated binary file.

\*
\*---- MODULE DropOrder_TETrace ----
\*EXTENDS IOUtils, TLC, DropOrder
\*
\*trace == IODeserialize("DropOrder_TTrace_1790583941.bin", TRUE)
\*
\*=============================================================================
\*

---- MODULE DropOrder_TETrace ----
EXTENDS TLC, DropOrder

trace == 
    <<
    ([consumed |-> FALSE,rpc |-> "select",waiting |-> 0,idle |-> 0,dphase |-> "live",sentE |-> 0,evSelected |-> TRUE,senderAlive |-> TRUE,sentM |-> 0,cmsgs |-> [add |-> 0, clear |-> 0, static |-> 0, ptr |-> 0],calls |-> 0,ready |-> 0,cacheAlive |-> TRUE,events |-> 0]),
    ([consumed |-> FALSE,rpc |-> "select",waiting |-> 0,idle |-> 0,dphase |-> "src",sentE |-> 0,evSelected |-> TRUE,senderAlive |-> TRUE,sentM |-> 0,cmsgs |-> [add |-> 0, clear |-> 0, static |-> 0, ptr |-> 0],calls |-> 0,ready |-> 0,cacheAlive |-> TRUE,events |-> 0])
    >>
----


=============================================================================

---- CONFIG DropOrder_TTrace_1790583941 ----
CONSTANTS
    MaxMsgs = 2
    MaxEvents = 2
    MaxCalls = 2
    FixExitOnCacheDrop = TRUE
    FixKeepServing = TRUE
    SourceDroppedFirst = TRUE

PROPERTY
    _prop

CHECK_DEADLOCK
    \* CHECK_DEADLOCK off because of PROPERTY or INVARIANT above.
    FALSE

INIT
    _init

NEXT
    _next

CONSTANT
    _TETrace <- _trace

ALIAS
    _expression
=============================================================================
\* Generated on Mon Sep 28 08:25:42 UTC 2026