SPECIFICATION Spec
CONSTANTS
  Names = {"a", "b"}
  ExtsW = {"", "x"}
  MaxDepth = 3
  FixRoot = TRUE
  FixRename = TRUE
  FixRemove = TRUE
INVARIANT Emit
CHECK_DEADLOCK FALSE
