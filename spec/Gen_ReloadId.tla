---------------------------- MODULE Gen_ReloadId ----------------------------
(* Behaviour generator for C18: every sequential call sequence of length N   *)
(* over the public operations, with the specification's own result for each *)
(* call.  One line of JSON per complete behaviour; replayed on the real     *)
(* AtomicReloadId / ReloadId by `amv rid-replay`.                           *)
EXTENDS ReloadId, Json

CONSTANT N
VARIABLE hist
gvars == <<cur, pc, op, ret, seen, ncalls, offered, forced, trues, growths, hist>>

GInit == Init /\ hist = <<>>

(* Begin;Lin;End of one call collapsed into one generator step. *)
Call(name, arg) ==
    /\ Len(hist) < N
    /\ LET e == Apply(cur, name, arg)
           r == IF name = "update" THEN (IF e.ret.v THEN 1 ELSE 0) ELSE e.ret.v
       IN /\ cur' = e.cur
          /\ hist' = Append(hist, [op |-> name, arg |-> arg, ret |-> r, cur |-> e.cur])
    /\ UNCHANGED <<pc, op, ret, seen, ncalls, offered, forced, trues, growths>>

GNext == \E name \in OpNames, arg \in Ids : Call(name, arg)
GSpec == GInit /\ [][GNext]_gvars

Emit == (Len(hist) = N) => PrintT(<<"REPLAY", ToJson(hist)>>)
=============================================================================
