SPECIFICATION Spec
CONSTANTS t1 = t1 t2 = t2 t3 = t3 k1 = k1 k2 = k2
  Threads <- T2
  Keys <- K1
  MaxCalls = 1
  OpNames <- LoadOps
  Replace = TRUE
  FailKeys = {}
INVARIANTS StableHandle SeesWinner PresenceMonotone HandleLive StoredLive LoserDropped NoLeak
PROPERTY DropOnce
CHECK_DEADLOCK FALSE
