SPECIFICATION Spec
CONSTANTS MaxEdits = 3 MaxSends = 3 MaxCalls = 2 Static = FALSE
PROPERTIES SentThenCallApplies
CHECK_DEADLOCK FALSE
