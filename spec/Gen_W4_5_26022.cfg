SPECIFICATION GSpec
CONSTANTS
  Keys <- W4Keys
  Files <- W4Files
  DirsU = {}
  Scripts <- W4Scripts
  InitSrcs <- W4Srcs
  InitDirs = {}
  HasReloader = TRUE
  FixGoi = TRUE
  OrderFirst = TRUE
  Ops <- W4Ops
  N = 5
  Keep <- KeepAll
INVARIANT Emit
CHECK_DEADLOCK FALSE
