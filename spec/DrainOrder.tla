------------------------------ MODULE DrainOrder ------------------------------
(***************************************************************************)
(* C05 (a design rule of the message loop made explicit).  A thread loads  *)
(* an asset (which SENDS AddAsset on the cache-message channel when the    *)
(* load returns) and only then edits the file and the source SENDS the     *)
(* notification on the event channel.  The two channels are independent,   *)
(* so the only thing that makes the notification useful is the rule of     *)
(* hot_reloading_thread: at EVERY wake-up drain ALL cache messages before  *)
(* taking one event (mod.rs:234-268, "we always want to check cache_msg    *)
(* first").  Then every event that was sent after an AddAsset finds the    *)
(* asset registered.                                                       *)
(*   DrainAlways = FALSE is the negative control: drain only when the      *)
(*   select reported the cache-message channel.                            *)
(***************************************************************************)
EXTENDS Naturals, Sequences, FiniteSets, TLC

CONSTANTS Assets, DrainAlways

VARIABLES cmsgs,      \* cache-message channel (FIFO): AddAsset keys
          evq,        \* event channel (FIFO): entries (identified with the asset reading them)
          graph,      \* registered assets
          rpc, ready,
          cpc,        \* client: asset -> "new" | "loaded" | "notified"
          dropped     \* events that were dequeued while their asset was unknown
vars == <<cmsgs, evq, graph, rpc, ready, cpc, dropped>>

Init == cmsgs = <<>> /\ evq = <<>> /\ graph = {} /\ rpc = "select" /\ ready = 0
        /\ cpc = [a \in Assets |-> "new"] /\ dropped = {}

(* load(a) returns: the AddAsset message has been sent *)
Load(a) == /\ cpc[a] = "new" /\ cpc' = [cpc EXCEPT ![a] = "loaded"] /\ cmsgs' = Append(cmsgs, a)
           /\ UNCHANGED <<evq, graph, rpc, ready, dropped>>
(* afterwards the file is edited and the notification sent *)
Notify(a) == /\ cpc[a] = "loaded" /\ cpc' = [cpc EXCEPT ![a] = "notified"] /\ evq' = Append(evq, a)
             /\ UNCHANGED <<cmsgs, graph, rpc, ready, dropped>>

Select == /\ rpc = "select" /\ (cmsgs # <<>> \/ evq # <<>>)
          /\ \E r \in {0, 1} : (r = 0 => cmsgs # <<>>) /\ (r = 1 => evq # <<>>) /\ ready' = r
          /\ rpc' = "drain" /\ UNCHANGED <<cmsgs, evq, graph, cpc, dropped>>
Drain == /\ rpc = "drain"
         /\ IF DrainAlways \/ ready = 0
            THEN graph' = graph \cup {cmsgs[i] : i \in 1..Len(cmsgs)} /\ cmsgs' = <<>>
            ELSE UNCHANGED <<graph, cmsgs>>
         /\ rpc' = "event" /\ UNCHANGED <<evq, ready, cpc, dropped>>
Event == /\ rpc = "event"
         /\ IF ready = 1 /\ evq # <<>>
            THEN /\ evq' = Tail(evq)
                 /\ dropped' = IF Head(evq) \in graph THEN dropped ELSE dropped \cup {Head(evq)}   \* handle_events: unknown entries are dropped
            ELSE UNCHANGED <<evq, dropped>>
         /\ rpc' = "select" /\ UNCHANGED <<cmsgs, graph, ready, cpc>>

Next == (\E a \in Assets : Load(a) \/ Notify(a)) \/ Select \/ Drain \/ Event \/ UNCHANGED vars
Spec == Init /\ [][Next]_vars

(* a change notified after the load returned is never dropped as "unknown" *)
NoLostNotification == dropped = {}
==============================================================================
