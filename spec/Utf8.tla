--------------------------------- MODULE Utf8 ---------------------------------
(***************************************************************************)
(* C16 (strings).  Well-formed UTF-8 over byte classes (Unicode table 3-7):*)
(* SharedString::from_utf8 and the serde visitors must accept exactly the  *)
(* well-formed sequences (src/utils/string.rs:15-66, 219-258).             *)
(* Classes:  A 00-7F | T1 80-8F | T2 90-9F | T3 A0-BF (continuation bytes) *)
(*   L2 C2-DF | E0 | E1 E1-EC | ED | EE EE-EF | F0 | F1 F1-F3 | F4         *)
(*   X  C0 C1 F5-FF (never valid)                                          *)
(* Every class sequence up to MaxLen is an initial state.                  *)
(***************************************************************************)
EXTENDS Naturals, Sequences, TLC, Json

CONSTANT MaxLen
Classes == {"A", "T1", "T2", "T3", "L2", "E0", "E1", "ED", "EE", "F0", "F1", "F4", "X"}
Cont == {"T1", "T2", "T3"}

RECURSIVE WellFormed(_)
WellFormed(s) ==
    IF s = <<>> THEN TRUE
    ELSE LET h == Head(s) n == Len(s) IN
      CASE h = "A"  -> WellFormed(Tail(s))
        [] h = "L2" -> n >= 2 /\ s[2] \in Cont /\ WellFormed(SubSeq(s, 3, n))
        [] h = "E0" -> n >= 3 /\ s[2] = "T3" /\ s[3] \in Cont /\ WellFormed(SubSeq(s, 4, n))
        [] h \in {"E1", "EE"} -> n >= 3 /\ s[2] \in Cont /\ s[3] \in Cont /\ WellFormed(SubSeq(s, 4, n))
        [] h = "ED" -> n >= 3 /\ s[2] \in {"T1", "T2"} /\ s[3] \in Cont /\ WellFormed(SubSeq(s, 4, n))
        [] h = "F0" -> n >= 4 /\ s[2] \in {"T2", "T3"} /\ s[3] \in Cont /\ s[4] \in Cont /\ WellFormed(SubSeq(s, 5, n))
        [] h = "F1" -> n >= 4 /\ s[2] \in Cont /\ s[3] \in Cont /\ s[4] \in Cont /\ WellFormed(SubSeq(s, 5, n))
        [] h = "F4" -> n >= 4 /\ s[2] = "T1" /\ s[3] \in Cont /\ s[4] \in Cont /\ WellFormed(SubSeq(s, 5, n))
        [] OTHER -> FALSE

VARIABLE s
Init == \E n \in 0..MaxLen : s \in [1..n -> Classes]
Next == UNCHANGED s
Spec == Init /\ [][Next]_s

(* sanity theorems of the predicate itself *)
Lead(c) == c \in {"L2", "E0", "E1", "ED", "EE", "F0", "F1", "F4"}
NoStrayContinuation == (Len(s) >= 1 /\ s[1] \in Cont) => ~WellFormed(s)
NoTruncation == (Len(s) >= 1 /\ Lead(s[Len(s)])) => ~WellFormed(s)
NeverX == (\E i \in 1..Len(s) : s[i] = "X") => ~WellFormed(s)
AsciiOk == (\A i \in 1..Len(s) : s[i] = "A") => WellFormed(s)
Concat == \A k \in 0..Len(s) : (WellFormed(SubSeq(s, 1, k)) /\ WellFormed(SubSeq(s, k + 1, Len(s)))) => WellFormed(s)

Emit == PrintT(<<"REPLAY", ToJson([s |-> s, ok |-> WellFormed(s)])>>)
==============================================================================
