----------------------------- MODULE SharedBytes -----------------------------
(***************************************************************************)
(* C16.  SharedBytes (src/utils/bytes.rs): one heap block (header `count`, *)
(* payload) shared by handles; clone = increment, drop = decrement and     *)
(* free by the thread that saw the last reference.  Handles are owned by   *)
(* threads and can be sent to other threads.                               *)
(*   FreeWhenOld : the value of the counter BEFORE the decrement that      *)
(*                 triggers the free (1 as built; 2 or 0 are the negative  *)
(*                 controls: premature free / leak).                       *)
(* The allocation rule of each constructor path and the layout the free    *)
(* path computes are stated as a finite theorem (LayoutMatches).           *)
(***************************************************************************)
EXTENDS Naturals, FiniteSets, Sequences, TLC

CONSTANTS Threads, MaxHandles, FreeWhenOld

VARIABLES owner,     \* handle -> owning thread, for live handles
          count,     \* the reference counter
          freed,     \* the block was deallocated
          frees,     \* number of deallocations
          pc,        \* thread -> "idle" | "freeing"
          nextH,
          content,   \* what the block holds (constant token while allocated)
          reads      \* history: every value read through a handle

vars == <<owner, count, freed, frees, pc, nextH, content, reads>>

Init == /\ owner = (1 :> CHOOSE t \in Threads : TRUE) /\ count = 1 /\ freed = FALSE /\ frees = 0
        /\ pc = [t \in Threads |-> "idle"] /\ nextH = 2 /\ content = "C" /\ reads = {}

Live == DOMAIN owner

(* Clone: fetch_add(1, Relaxed); a new handle owned by the cloning thread *)
Clone(t, h) == /\ h \in Live /\ owner[h] = t /\ nextH <= MaxHandles /\ pc[t] = "idle"
               /\ count' = count + 1
               /\ owner' = (nextH :> t) @@ owner /\ nextH' = nextH + 1
               /\ UNCHANGED <<freed, frees, pc, content, reads>>
(* moving a handle to another thread *)
Send(t, h, u) == /\ h \in Live /\ owner[h] = t /\ u # t /\ pc[t] = "idle"
                 /\ owner' = [owner EXCEPT ![h] = u]
                 /\ UNCHANGED <<count, freed, frees, pc, nextH, content, reads>>
(* Deref *)
Read(t, h) == /\ h \in Live /\ owner[h] = t /\ pc[t] = "idle"
              /\ reads' = reads \cup {IF freed THEN "GARBAGE" ELSE content}
              /\ UNCHANGED <<owner, count, freed, frees, pc, nextH, content>>
(* Drop: if count.fetch_sub(1, Release) == 1 { drop_slow } *)
DropDec(t, h) == /\ h \in Live /\ owner[h] = t /\ pc[t] = "idle"
                 /\ owner' = [x \in Live \ {h} |-> owner[x]]
                 /\ count' = count - 1
                 /\ pc' = [pc EXCEPT ![t] = IF count = FreeWhenOld THEN "freeing" ELSE "idle"]
                 /\ UNCHANGED <<freed, frees, nextH, content, reads>>
(* drop_slow: Acquire load; dealloc *)
Free(t) == /\ pc[t] = "freeing"
           /\ freed' = TRUE /\ frees' = frees + 1 /\ pc' = [pc EXCEPT ![t] = "idle"]
           /\ UNCHANGED <<owner, count, nextH, content, reads>>

Next == \/ \E t \in Threads, h \in Live : Clone(t, h) \/ Read(t, h) \/ DropDec(t, h) \/ (\E u \in Threads : Send(t, h, u))
        \/ \E t \in Threads : Free(t)
        \/ UNCHANGED vars
Spec == Init /\ [][Next]_vars

CountIsHandles == count = Cardinality(Live) + 0
NoUseAfterFree == Live # {} => ~freed
ContentConst == reads \subseteq {"C"}
FreeOnce == frees <= 1
FreedWhenAllDropped == (Live = {} /\ \A t \in Threads : pc[t] = "idle") => (freed /\ frees = 1)

None == [nil |-> TRUE]
(* ---- layouts (finite theorem) ------------------------------------------ *)
Hdr == 32    \* size of the header, any positive constant
(* what each constructor allocates for the header block, and the fields it records *)
Ctor(path, len, cap) ==
    CASE path = "slice" -> [block |-> Hdr + len, capacity |-> 0, payload |-> "inline", len |-> len]       \* from_slice, Cow::Borrowed
      [] path = "vec"   -> [block |-> Hdr,       capacity |-> cap, payload |-> "vec", len |-> len, vcap |-> cap]   \* from_vec, Box, Cow::Owned, FromIterator
(* what drop_slow frees *)
FreePath(c) ==
    IF c.capacity # 0 THEN [block |-> Hdr, vec |-> [len |-> c.len, cap |-> c.capacity]]
                      ELSE [block |-> Hdr + c.len, vec |-> None]
LayoutMatches ==
    \A path \in {"slice", "vec"}, len \in 0..3, cap \in 0..4 :
        (path = "vec" => cap >= len) =>
            LET c == Ctor(path, len, cap)
                f == FreePath(c) IN
            /\ f.block = c.block                                    \* the header block is freed with the layout it was allocated with
            /\ (c.payload = "vec" /\ c.vcap > 0) => (f.vec # None /\ f.vec.cap = c.vcap /\ f.vec.len = c.len)   \* the Vec is rebuilt with its own capacity
            /\ (c.payload = "inline") => f.vec = None
==============================================================================
