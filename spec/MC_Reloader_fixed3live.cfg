SPECIFICATION Spec
CONSTANTS
  FileNodes <- F1
  AssetNodes <- A3
  FixVisitMark = TRUE
INVARIANTS StackBounded NoDuplicate OrderValid
PROPERTY Terminates
CHECK_DEADLOCK FALSE
