----------------------------- MODULE Gen_Sources -----------------------------
(* Case generator for C04 / C11: every (tree, explicit directory members,      *)
(* member order, unreadable directory) reached at phase "done", with the        *)
(* reference answers; materialised by `amv src-replay` as a real directory, tar *)
(* and zip archives, and an embedded table.                                     *)
EXTENDS Sources, Json

Case == [dirs |-> dirs,
         files |-> {[dir |-> f.dir, stem |-> f.stem, ext |-> f.ext] : f \in files},
         order |-> order,
         bad |-> badDirs,
         listing |-> {[dir |-> d, children |-> RefChildren(d)] : d \in {Root} \cup dirs},
         dirIds |-> {[dir |-> d, exts |-> x, ids |-> RefDirIds(d, x), rec |-> RefRecIds(d, x)] : d \in {Root} \cup dirs, x \in DirLists}]
Emit == phase = "done" => PrintT(<<"REPLAY", ToJson(Case)>>)
=============================================================================
