SPECIFICATION TraceSpec
CONSTANTS
  Threads = {"t1", "t2", "t3", "t4"}
  MaxId = 64
  OpNames = {"update", "fetch_max", "swap", "store", "load"}
  MaxCalls = 1000000
  Atomic = TRUE
INVARIANTS MaxFinal NeverAbove OneTruePerGrowth NeverLeast
CONSTRAINT Progress
POSTCONDITION TraceAccepted
CHECK_DEADLOCK FALSE
