SPECIFICATION Spec
CONSTANTS t1 = t1 t2 = t2 t3 = t3 k1 = k1 k2 = k2
  Threads <- T3
  Keys <- K2
  MaxCalls = 2
  OpNames <- AllOps
  Replace = FALSE
  FailKeys = {}
INVARIANTS StableHandle SeesWinner PresenceMonotone HandleLive StoredLive LoserDropped NoLeak
PROPERTY DropOnce
CHECK_DEADLOCK FALSE
