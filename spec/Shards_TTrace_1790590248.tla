---- MODULE Shards_TTrace_1790590248 ----
EXTENDS Sequences, TLCExt, Toolbox, Naturals, TLC, Shards

_expression ==
    LET Shards_TEExpression == INSTANCE Shards_TEExpression
    IN Shards_TEExpression!expression
----

_trace ==
    LET Shards_TETrace == INSTANCE Shards_TETrace
    IN Shards_TETrace!trace
----

_inv ==
    ~(
        TLCGet("level") = Len(_TETrace)
        /\
        shards = ((0 :> {} @@ 1 :> {} @@ 2 :> {} @@ 3 :> {} @@ 4 :> {} @@ 5 :> {5} @@ 6 :> {} @@ 7 :> {} @@ 8 :> {} @@ 9 :> {} @@ 10 :> {} @@ 11 :> {}))
        /\
        abs = ({})
        /\
        last = ([h |-> 5, op |-> "remove", got |-> FALSE, want |-> TRUE])
        /\
        cpus = (3)
    )
----

_init ==
    /\ last = _TETrace[1].last
    /\ cpus = _TETrace[1].cpus
    /\ shards = _TETrace[1].shards
    /\ abs = _TETrace[1].abs
----

_next ==
    /\ \E i,j \in DOMAIN _TETrace:
        /\ \/ /\ j = i + 1
              /\ i = TLCGet("level")
        /\ last  = _TETrace[i].last
        /\ last' = _TETrace[j].last
        /\ cpus  = _TETrace[i].cpus
        /\ cpus' = _TETrace[j].cpus
        /\ shards  = _TETrace[i].shards
        /\ shards' = _TETrace[j].shards
        /\ abs  = _TETrace[i].abs
        /\ abs' = _TETrace[j].abs

\* Uncomment the ASSUME below to write the states of the error trace
\* to the given file in Json format. Note that you can pass any tuple
\* to `JsonSerialize`. For example, a sub-sequence of _TETrace.
    \* ASSUME
    \*     LET J == INSTANCE Json
    \*         IN J!JsonSerialize("Shards_TTrace_1790590248.json", _TETrace)

=============================================================================

 Note that you can extract this module `Shards_TEExpression`
  to a dedicated file to reuse `expression` (the module in the 
  dedicated `Shards_TEExpression.tla` file takes precedence 
  over the module `Shards_TEExpression` below).

---- MODULE Shards_TEExpression ----
EXTENDS Sequences, TLCExt, Toolbox, Naturals, TLC, Shards

expression == 
    [
        \* To hide variables of the `Shards` spec from the error trace,
        \* remove the variables below.  The trace will be written in the order
        \* of the fields of this record.
        last |-> last
        ,cpus |-> cpus
        ,shards |-> shards
        ,abs |-> abs
        
        \* Put additional constant-, state-, and action-level expressions here:
        \* ,_stateNumber |-> _TEPosition
        \* ,_lastUnchanged |-> last = last'
        
        \* Format the `last` variable as Json value.
        \* ,_lastJson |->
        \*     LET J == INSTANCE Json
        \*     IN J!ToJson(last)
        
        \* Lastly, you may build expressions over arbitrary sets of states by
        \* leveraging the _TETrace operator.  For example, this is how to
        \* count the number of times a spec variable changed up to the current
        \* state in the trace.
        \* ,_lastModCount |->
        \*     LET F[s \in DOMAIN _TETrace] ==
        \*         IF s = 1 THEN 0
        \*         ELSE IF _TETrace[s].last # _TETrace[s-1].last
        \*             THEN 1 + F[s-1] ELSE F[s-1]
        \*     IN F[_TEPosition - 1]
    ]

=============================================================================



Parsing and semantic processing can take forever if the trace below is long.
 In this case, it is advised to uncomment the module below to deserialize the
 trace from a generated binary file.

\*
\*---- MODULE Shards_TETrace ----
\*EXTENDS IOUtils, TLC, Shards
\*
\*trace == IODeserialize("Shards_TTrace_1790590248.bin", TRUE)
\*
\*=============================================================================
\*

---- MODULE Shards_TETrace ----
EXTENDS TLC, Shards

trace == 
    <<
    ([shards |-> (0 :> {} @@ 1 :> {} @@ 2 :> {} @@ 3 :> {} @@ 4 :> {} @@ 5 :> {} @@ 6 :> {} @@ 7 :> {} @@ 8 :> {} @@ 9 :> {} @@ 10 :> {} @@ 11 :> {}),abs |-> {},last |-> [op |-> "init"],cpus |-> 3]),
    ([shards |-> (0 :> {} @@ 1 :> {} @@ 2 :> {} @@ 3 :> {} @@ 4 :> {} @@ 5 :> {5} @@ 6 :> {} @@ 7 :> {} @@ 8 :> {} @@ 9 :> {} @@ 10 :> {} @@ 11 :> {}),abs |-> {5},last |-> [h |-> 5, op |-> "insert", won |-> TRUE, wantWon |-> TRUE],cpus |-> 3]),
    ([shards |-> (0 :> {} @@ 1 :> {} @@ 2 :> {} @@ 3 :> {} @@ 4 :> {} @@ 5 :> {5} @@ 6 :> {} @@ 7 :> {} @@ 8 :> {} @@ 9 :> {} @@ 10 :> {} @@ 11 :> {}),abs |-> {},last |-> [h |-> 5, op |-> "remove", got |-> FALSE, want |-> TRUE],cpus |-> 3])
    >>
----


=============================================================================

---- CONFIG Shards_TTrace_1790590248 ----
CONSTANTS
    Cpus = { 1 , 2 , 3 , 5 , 6 , 7 , 8 }
    Hashes = { 0 , 5 , 12 , 13 , 27 , 31 , 44 }
    RoundUp = FALSE
    IdxShared = "mod"
    IdxExcl = "mask"

INVARIANT
    _inv

CHECK_DEADLOCK
    \* CHECK_DEADLOCK off because of PROPERTY or INVARIANT above.
    FALSE

INIT
    _init

NEXT
    _next

CONSTANT
    _TETrace <- _trace

ALIAS
    _expression
=============================================================================
\* Generated on Mon Sep 28 10:10:50 UTC 2026