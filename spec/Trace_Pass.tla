----------------------------- MODULE Trace_Pass -----------------------------
(***************************************************************************)
(* Trace validation of the reloader's bookkeeping (C05, C06, C14): the     *)
(* hook events of the hot-reloading thread - Graph (every DepsGraph        *)
(* insertion), Event (every dequeued entry with the `known` verdict),      *)
(* MsgClear, Pass (with the changed set), ReloadTry / ReloadOk / ReloadErr *)
(* and PassEnd - must be explained by DepsGraph.tla:                       *)
(*   - an entry is `known` iff it is a node of the graph;                  *)
(*   - a pass starts from exactly the known entries dequeued since the     *)
(*     previous pass (or clear);                                           *)
(*   - the keys it tries form a valid update order of the graph as it was  *)
(*     when the pass started (OrderOK: exactly the affected assets, each   *)
(*     once, dependencies first);                                          *)
(*   - every successful reload re-registers the asset's dependency set.    *)
(***************************************************************************)
EXTENDS DepsGraph, Json, IOUtils, TLCExt

Rec == ndJsonDeserialize(IOEnv.TRACE)

VARIABLES l, g, changed, inPass, g0, c0, order, cur
vars == <<l, g, changed, inPass, g0, c0, order, cur>>

NoKey == [k |-> "none"]
TraceInit == l = 1 /\ g = NoGraph /\ changed = {} /\ inPass = FALSE /\ g0 = NoGraph /\ c0 = {} /\ order = <<>> /\ cur = NoKey /\ TLCSet(1, 1)

Ev(name) == l <= Len(Rec) /\ Rec[l].ev = name
Adv == l' = l + 1
ToSet(s) == {s[i] : i \in 1..Len(s)}

TGraph == /\ Ev("Graph")
          /\ g' = GraphInsert(g, Rec[l].key, ToSet(Rec[l].deps))
          \* inside a pass a re-registration belongs to the key that was just reloaded successfully, or to a nested first load
          /\ Adv /\ UNCHANGED <<changed, inPass, g0, c0, order, cur>>
TEvent == /\ Ev("Event") /\ ~inPass
          /\ Rec[l].known = (Rec[l].entry \in DOMAIN g)
          /\ changed' = IF Rec[l].known THEN changed \cup {Rec[l].entry} ELSE changed
          /\ Adv /\ UNCHANGED <<g, inPass, g0, c0, order, cur>>
TClear == /\ Ev("MsgClear") /\ ~inPass /\ changed' = {} /\ Adv /\ UNCHANGED <<g, inPass, g0, c0, order, cur>>
TPass == /\ Ev("Pass") /\ ~inPass
         /\ ToSet(Rec[l].changed) = changed
         /\ inPass' = TRUE /\ g0' = g /\ c0' = changed /\ changed' = {} /\ order' = <<>> /\ cur' = NoKey
         /\ Adv /\ UNCHANGED g
TTry == /\ Ev("ReloadTry") /\ inPass
        /\ order' = Append(order, Rec[l].key) /\ cur' = Rec[l].key
        /\ Adv /\ UNCHANGED <<g, changed, inPass, g0, c0>>
TOk == /\ Ev("ReloadOk") /\ inPass /\ cur = Rec[l].key
       /\ Adv /\ UNCHANGED <<g, changed, inPass, g0, c0, order, cur>>
TErr == /\ Ev("ReloadErr") /\ inPass /\ cur = Rec[l].key
        /\ Adv /\ UNCHANGED <<g, changed, inPass, g0, c0, order, cur>>
TPassEnd == /\ Ev("PassEnd") /\ inPass
            /\ OrderOK(g0, c0, order)
            /\ inPass' = FALSE
            /\ Adv /\ UNCHANGED <<g, changed, g0, c0, order, cur>>
TReset == /\ Ev("Reset") /\ Adv
          /\ g' = NoGraph /\ changed' = {} /\ inPass' = FALSE /\ g0' = NoGraph /\ c0' = {} /\ order' = <<>> /\ cur' = NoKey

TraceNext == TGraph \/ TEvent \/ TClear \/ TPass \/ TTry \/ TOk \/ TErr \/ TPassEnd \/ TReset
TraceSpec == TraceInit /\ [][TraceNext]_vars

Progress == IF l > TLCGet(1) THEN TLCSet(1, l) ELSE TRUE
TraceAccepted ==
    LET n == TLCGet(1) IN
    IF n = Len(Rec) + 1 THEN TRUE
    ELSE /\ PrintT(<<"UNMATCHED", n, ToJson(Rec[n])>>)
         /\ FALSE
(* each asset at most once per pass (C06) *)
OncePerPass == \A i, j \in 1..Len(order) : i # j => order[i] # order[j]
=============================================================================
