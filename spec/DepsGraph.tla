------------------------------ MODULE DepsGraph ------------------------------
(***************************************************************************)
(* The reloader's dependency graph (src/hot_reloading/dependencies.rs):    *)
(* insertion with reverse edges, the set of assets a batch of changed      *)
(* entries affects, and what a valid update order is.                      *)
(***************************************************************************)
EXTENDS AMTypes

NoGraph == [d \in {} |-> 0]
Node(typ, deps, rdeps) == [typ |-> typ, deps |-> deps, rdeps |-> rdeps]

(* DepsGraph::insert (dependencies.rs:88-121) *)
GraphInsert(g, key, deps) ==
    LET withR == [d \in DOMAIN g \cup deps \cup {key} |->
                    IF d \in DOMAIN g
                    THEN IF d \in deps THEN [g[d] EXCEPT !.rdeps = @ \cup {key}] ELSE g[d]
                    ELSE Node(FALSE, {}, IF d \in deps THEN {key} ELSE {})]
        old   == IF key \in DOMAIN g THEN g[key].deps ELSE {}
        removed == IF key \in DOMAIN g THEN old \ deps ELSE {}
    IN [d \in DOMAIN withR |->
          IF d = key THEN [withR[d] EXCEPT !.typ = TRUE, !.deps = deps]
          ELSE IF d \in removed THEN [withR[d] EXCEPT !.rdeps = @ \ {key}]
          ELSE withR[d]]

(* assets reachable from the changed entries through reverse dependencies *)
RECURSIVE Reach(_, _, _)
Reach(g, frontier, seen) ==
    IF frontier = {} THEN seen
    ELSE LET nxt == UNION {g[d].rdeps : d \in frontier \cap DOMAIN g} \ seen
         IN Reach(g, nxt, seen \cup nxt)

Affected(g, changed) == {d \in Reach(g, changed \cap DOMAIN g, {}) : d.k = "asset"}

TypeSeq == <<"L0", "L1", "L2", "L3", "L4", "L5", "L6", "L7", "N0", "N1", "N2", "N3", "N4", "N5",
             "DL0", "DL1", "DL2", "RL0", "RL1", "S0", "AL0", "AL2", "OL0", "OL2">>
IdxOf(seq, x) == CHOOSE i \in 1..Len(seq) : seq[i] = x
(* any fixed total order on keys will do *)
KeyLess(a, b) == \/ IdxOf(TypeSeq, a.ty) < IdxOf(TypeSeq, b.ty)
                 \/ (a.ty = b.ty /\ IdxOf(IdSeq, a.id) < IdxOf(IdSeq, b.id))

(* A dependencies-first order of the affected assets w.r.t. the graph as it  *)
(* is when the pass starts (what topological_sort_from yields on a DAG).     *)
(* `first` selects among the ready assets: the least (TRUE) or the greatest  *)
(* (FALSE) in the fixed key order -- two of the orders the hash iteration of   *)
(* the real sort can produce.                                                  *)
RECURSIVE TopoOrderBy(_, _, _, _)
TopoOrderBy(g, remaining, acc, first) ==
    IF remaining = {} THEN acc
    ELSE LET ready == {d \in remaining : g[d].deps \cap remaining = {}}
             pool  == IF ready = {} THEN remaining ELSE ready     \* cycle: any
             pick  == IF first THEN CHOOSE d \in pool : \A o \in pool : o = d \/ KeyLess(d, o)
                               ELSE CHOOSE d \in pool : \A o \in pool : o = d \/ KeyLess(o, d)
         IN TopoOrderBy(g, remaining \ {pick}, Append(acc, pick), first)
TopoOrder(g, remaining, acc) == TopoOrderBy(g, remaining, acc, TRUE)

(* closure of dependencies in the old graph *)
RECURSIVE DepClosure(_, _, _)
DepClosure(g, frontier, seen) ==
    IF frontier = {} THEN seen
    ELSE LET nxt == UNION {g[d].deps : d \in frontier \cap DOMAIN g} \ seen
         IN DepClosure(g, nxt, seen \cup nxt)


(* A valid update order for a pass that starts from `changed` on graph g:     *)
(* exactly the affected assets, each once, and a dependency before its        *)
(* dependent unless the two are on a dependency cycle.                        *)
OrderOK(g, changed, order) ==
    /\ {order[i] : i \in 1..Len(order)} = Affected(g, changed)
    /\ \A i, j \in 1..Len(order) : i # j => order[i] # order[j]
    /\ \A i, j \in 1..Len(order) :
          (i < j /\ order[i] \in DOMAIN g /\ order[j] \in g[order[i]].deps)
              => order[i] \in DepClosure(g, {order[j]}, {})      \* only allowed on a cycle
=============================================================================
