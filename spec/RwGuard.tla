------------------------------- MODULE RwGuard -------------------------------
(***************************************************************************)
(* C07.  One reloadable entry: W words of value, the reload id, the entry  *)
(* RwLock; M readers taking guards and reading word by word; the reloader  *)
(* rewriting it word by word (swap_nonoverlapping is not atomic) on behalf *)
(* of hot_reload callers.  src/entry.rs:106-134, 531-559;                  *)
(* src/hot_reloading/mod.rs:193-207, 239-248; paths.rs:94-106.             *)
(*                                                                         *)
(*  Locked = FALSE       : negative control, the writer does not exclude   *)
(*                         readers (torn reads, unpinned guards).          *)
(*  AnswerAfterPass = FALSE : negative control, hot_reload is answered     *)
(*                         before the pass has run.                        *)
(***************************************************************************)
EXTENDS Naturals, FiniteSets, Sequences, TLC

CONSTANTS Readers, W, MaxWrites, MaxReads, Locked, AnswerAfterPass, StaticMode

VARIABLES words,     \* words[i]: version stored in word i
          rid,       \* reload id
          writer,    \* TRUE while the write lock is held
          holders,   \* readers holding a guard
          wpc, wi,   \* reloader: "idle" | "pass" | "locked" | "answer" ; next word to swap
          nw,        \* rewrites done
          rpc,       \* reader pc: "idle" | "holding"
          ri,        \* next word a reader reads
          snap,      \* words a reader has seen under its guard
          acqRid,    \* rid seen when the guard was taken
          nreads,
          cpc,       \* the hot_reload caller: "out" | "waiting"
          pending,   \* a change has been notified and not applied
          served     \* the pass for the current request has run

vars == <<words, rid, writer, holders, wpc, wi, nw, rpc, ri, snap, acqRid, nreads, cpc, pending, served>>

Init == /\ words = [i \in 1..W |-> 0] /\ rid = 0 /\ writer = FALSE /\ holders = {}
        /\ wpc = "idle" /\ wi = 1 /\ nw = 0
        /\ rpc = [r \in Readers |-> "idle"] /\ ri = [r \in Readers |-> 1]
        /\ snap = [r \in Readers |-> <<>>] /\ acqRid = [r \in Readers |-> 0] /\ nreads = [r \in Readers |-> 0]
        /\ cpc = "out" /\ pending = FALSE /\ served = FALSE

(* environment: a change is notified *)
Notify == /\ ~pending /\ nw < MaxWrites /\ pending' = TRUE
          /\ UNCHANGED <<words, rid, writer, holders, wpc, wi, nw, rpc, ri, snap, acqRid, nreads, cpc, served>>

(* hot_reload(): send the request, block for the answer *)
Call == /\ cpc = "out" /\ cpc' = "waiting" /\ served' = FALSE
        /\ UNCHANGED <<words, rid, writer, holders, wpc, wi, nw, rpc, ri, snap, acqRid, nreads, pending>>

(* the reloader starts a pass: on a request (local mode) or on its own (static mode) *)
StartPass == /\ wpc = "idle"
             /\ IF StaticMode THEN pending ELSE (cpc = "waiting" /\ ~served)
             /\ IF ~AnswerAfterPass /\ ~StaticMode /\ cpc = "waiting"
                  THEN cpc' = "out"                     \* negative control: answered first
                  ELSE UNCHANGED cpc
             /\ wpc' = IF pending THEN "pass" ELSE "answer"
             /\ UNCHANGED <<words, rid, writer, holders, wi, nw, rpc, ri, snap, acqRid, nreads, pending, served>>

(* UntypedEntry::write: lock.write() *)
WLock == /\ wpc = "pass" /\ (Locked => (~writer /\ holders = {}))
         /\ writer' = TRUE /\ wpc' = "locked" /\ wi' = 1
         /\ UNCHANGED <<words, rid, holders, nw, rpc, ri, snap, acqRid, nreads, cpc, pending, served>>
(* swap one word *)
WWord == /\ wpc = "locked" /\ wi <= W
         /\ words' = [words EXCEPT ![wi] = nw + 1] /\ wi' = wi + 1
         /\ UNCHANGED <<rid, writer, holders, wpc, nw, rpc, ri, snap, acqRid, nreads, cpc, pending, served>>
(* reload.increment(); unlock *)
WDone == /\ wpc = "locked" /\ wi > W
         /\ rid' = rid + 1 /\ nw' = nw + 1 /\ writer' = FALSE /\ pending' = FALSE
         /\ wpc' = "answer"
         /\ UNCHANGED <<words, holders, wi, rpc, ri, snap, acqRid, nreads, cpc, served>>
(* answers.notify(token) *)
Answer == /\ wpc = "answer"
          /\ wpc' = "idle" /\ served' = TRUE
          /\ cpc' = IF cpc = "waiting" THEN "out" ELSE cpc
          /\ UNCHANGED <<words, rid, writer, holders, wi, nw, rpc, ri, snap, acqRid, nreads, pending>>

(* Handle::read(): lock.read() *)
Acquire(r) == /\ rpc[r] = "idle" /\ nreads[r] < MaxReads /\ (Locked => ~writer)
              /\ holders' = holders \cup {r} /\ rpc' = [rpc EXCEPT ![r] = "holding"]
              /\ ri' = [ri EXCEPT ![r] = 1] /\ snap' = [snap EXCEPT ![r] = <<>>] /\ acqRid' = [acqRid EXCEPT ![r] = rid]
              /\ nreads' = [nreads EXCEPT ![r] = @ + 1]
              /\ UNCHANGED <<words, rid, writer, wpc, wi, nw, cpc, pending, served>>
ReadWord(r) == /\ rpc[r] = "holding" /\ ri[r] <= W
               /\ snap' = [snap EXCEPT ![r] = Append(@, words[ri[r]])] /\ ri' = [ri EXCEPT ![r] = @ + 1]
               /\ UNCHANGED <<words, rid, writer, holders, wpc, wi, nw, rpc, acqRid, nreads, cpc, pending, served>>
Release(r) == /\ rpc[r] = "holding" /\ ri[r] > W
              /\ holders' = holders \ {r} /\ rpc' = [rpc EXCEPT ![r] = "idle"]
              /\ UNCHANGED <<words, rid, writer, wpc, wi, nw, ri, snap, acqRid, nreads, cpc, pending, served>>

Next == Notify \/ Call \/ StartPass \/ WLock \/ WWord \/ WDone \/ Answer
        \/ \E r \in Readers : Acquire(r) \/ ReadWord(r) \/ Release(r)
        \/ UNCHANGED vars
Spec == Init /\ [][Next]_vars

(* a reader sees a complete old value or a complete new value *)
NoTornRead == \A r \in Readers : \A i, j \in 1..Len(snap[r]) : snap[r][i] = snap[r][j]
(* while a guard is alive the value and the reload id do not change *)
Pinned == \A r \in holders : rid = acqRid[r] /\ (Locked => ~writer)
PinnedStep == [][\A r \in Readers : (r \in holders /\ r \in holders') => (words' = words /\ rid' = rid)]_vars
(* unless enhance_hot_reloading was called, values change only while some thread is inside hot_reload *)
ChangeOnlyInHotReload == [][(~StaticMode /\ words' # words) => cpc = "waiting"]_vars
(* hot_reload does not return before the reloads it triggered are finished *)
ReturnAfterPass == [][(cpc = "waiting" /\ cpc' = "out") => (wpc' = "idle" /\ ~writer')]_vars
==============================================================================
