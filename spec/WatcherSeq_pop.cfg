SPECIFICATION Spec
CONSTANTS Names = {"a", "b"}
          Dotted = {"x.y"}
          MaxLen = 3
          ResetFirst = TRUE
          PopNeedsDot = TRUE
INVARIANTS HistoryFree PopToRootWorks
CHECK_DEADLOCK FALSE
