SPECIFICATION TraceSpec
INVARIANTS OncePerPass AnsweredWereRequested
CONSTRAINT Progress
POSTCONDITION TraceAccepted
CHECK_DEADLOCK FALSE
