\* 2 concurrent callers, every public operation
SPECIFICATION Spec
CONSTANTS
  t1 = t1  t2 = t2  t3 = t3
  Threads <- MCThreads2
  MaxId = 2
  OpNames <- MCOpsAll
  MaxCalls = 2
  Atomic = TRUE
INVARIANTS TypeOK MaxFinal NeverAbove NeverLeast
PROPERTY Monotone
CHECK_DEADLOCK FALSE
