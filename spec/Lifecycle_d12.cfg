SPECIFICATION Spec
CONSTANTS MaxMsgs = 2 MaxEvents = 2 MaxCalls = 2
  FixExitOnCacheDrop = TRUE
  FixKeepServing = FALSE
INVARIANTS TypeOK NoOrphanRequest

CHECK_DEADLOCK FALSE
