------------------------------- MODULE Answers -------------------------------
(***************************************************************************)
(* C08 (mailbox part).  src/hot_reloading/mod.rs:112-139, 193-207, 239-248 *)
(*                                                                         *)
(* `HotReloader::reload` takes a unique token, sends Ptr(token) on the     *)
(* cache-message channel and blocks in `Answers::wait_for_answer(token)`.  *)
(* The reloader thread receives Ptr(token), runs the update pass and calls *)
(* `Answers::notify(token)`.  `Answers` is one mutex, one condition        *)
(* variable and one slot `current_token: Option<usize>`.                   *)
(*                                                                         *)
(* Condvar level: the mutex, the wait set and every wake-up are explicit   *)
(* so that lost wake-ups are reachable states.  One action per critical    *)
(* section of the code.                                                    *)
(*                                                                         *)
(*   FixAnswerNotify = FALSE : as built at the pinned commit:              *)
(*       wait_for_answer clears the slot WITHOUT notify_all (D1).          *)
(*   FixAnswerNotify = TRUE  : the consumer wakes everybody after clearing *)
(*       the slot (the repaired behaviour).                                *)
(***************************************************************************)
EXTENDS Naturals, FiniteSets, Sequences, TLC

CONSTANTS Callers,          \* threads calling hot_reload
          MaxCalls,         \* calls per caller (bounds the model)
          FixAnswerNotify,  \* see above
          Spurious          \* allow spurious condvar wake-ups

R == "R"                    \* the reloader thread
Procs == Callers \cup {R}
None == [nil |-> TRUE]
Tok(n) == [nil |-> FALSE, n |-> n]

VARIABLES
    mutex,      \* None or the process holding `current_token`'s mutex
    slot,       \* current_token: None or Tok(n)
    waiting,    \* processes parked in condvar.wait
    chan,       \* set of Ptr tokens in flight on the cache-message channel
    cpc,        \* cpc[c]: "idle" | "acq" | "chk" | "wait" | "done"
    tok,        \* tok[c]: token of the call in progress
    ncalls,     \* calls started by c
    rpc,        \* reloader: "recv" | "work" | "acq" | "chk" | "wait"
    rtok,       \* token the reloader is serving
    next,       \* next_token
    \* history
    processed,  \* tokens whose update pass has completed
    answered    \* tokens published in the slot so far

vars == <<mutex, slot, waiting, chan, cpc, tok, ncalls, rpc, rtok, next, processed, answered>>

Init ==
    /\ mutex = None /\ slot = None /\ waiting = {} /\ chan = {}
    /\ cpc = [c \in Callers |-> "idle"]
    /\ tok = [c \in Callers |-> 0]
    /\ ncalls = [c \in Callers |-> 0]
    /\ rpc = "recv" /\ rtok = 0 /\ next = 0
    /\ processed = {} /\ answered = {}

(* condvar.notify_all: every parked process becomes runnable; it still has *)
(* to re-acquire the mutex before it re-evaluates its predicate.           *)
WakeAll(cpc0, rpc0) ==
    /\ cpc' = [c \in Callers |-> IF c \in waiting THEN "acq" ELSE cpc0[c]]
    /\ rpc' = IF R \in waiting THEN "acq" ELSE rpc0
    /\ waiting' = {}

------------------------------------------------------------------------------
(* hot_reload(): get_unique_token; sender.send(Ptr(.., token)) *)
RequestTok(c, n) ==
    /\ cpc[c] = "idle" /\ ncalls[c] < MaxCalls
    /\ n \notin chan /\ n \notin answered
    /\ tok' = [tok EXCEPT ![c] = n]
    /\ next' = IF n >= next THEN n + 1 ELSE next
    /\ chan' = chan \cup {n}
    /\ ncalls' = [ncalls EXCEPT ![c] = @ + 1]
    /\ cpc' = [cpc EXCEPT ![c] = "acq"]
    /\ UNCHANGED <<mutex, slot, waiting, rpc, rtok, processed, answered>>

Request(c) == RequestTok(c, next)

(* wait_for_answer: current_token.lock() (also the re-lock after a wake-up) *)
CLock(c) ==
    /\ cpc[c] = "acq" /\ mutex = None
    /\ mutex' = Tok(c)
    /\ cpc' = [cpc EXCEPT ![c] = "chk"]
    /\ UNCHANGED <<slot, waiting, chan, tok, ncalls, rpc, rtok, next, processed, answered>>

(* wait_while(|t| *t != Some(token)): predicate true -> park and release *)
CPark(c) ==
    /\ cpc[c] = "chk" /\ slot # Tok(tok[c])
    /\ waiting' = waiting \cup {c}
    /\ mutex' = None
    /\ cpc' = [cpc EXCEPT ![c] = "wait"]
    /\ UNCHANGED <<slot, chan, tok, ncalls, rpc, rtok, next, processed, answered>>

(* predicate false: *token = None; (repaired: notify_all;) unlock; return *)
CConsume(c) ==
    /\ cpc[c] = "chk" /\ slot = Tok(tok[c])
    /\ slot' = None
    /\ mutex' = None
    /\ IF FixAnswerNotify
         THEN WakeAll([cpc EXCEPT ![c] = "done"], rpc)
         ELSE /\ cpc' = [cpc EXCEPT ![c] = "done"]
              /\ UNCHANGED <<rpc, waiting>>
    /\ UNCHANGED <<chan, tok, ncalls, rtok, next, processed, answered>>

(* the call has returned; the thread may call again *)
Return(c) ==
    /\ cpc[c] = "done"
    /\ cpc' = [cpc EXCEPT ![c] = "idle"]
    /\ UNCHANGED <<mutex, slot, waiting, chan, tok, ncalls, rpc, rtok, next, processed, answered>>

------------------------------------------------------------------------------
(* cache_msg.try_recv() -> Ok(Ptr(.., token)) ; crossbeam channels are FIFO *)
(* per sender, and each caller has one request in flight, so a set suffices *)
RRecv ==
    /\ rpc = "recv"
    /\ \E t \in chan :
        /\ chan' = chan \ {t}
        /\ rtok' = t
    /\ rpc' = "work"
    /\ UNCHANGED <<mutex, slot, waiting, cpc, tok, ncalls, next, processed, answered>>

(* cache.update_if_local(..): the whole reload pass *)
RWork ==
    /\ rpc = "work"
    /\ processed' = processed \cup {rtok}
    /\ rpc' = "acq"
    /\ UNCHANGED <<mutex, slot, waiting, chan, cpc, tok, ncalls, rtok, next, answered>>

RLock ==
    /\ rpc = "acq" /\ mutex = None
    /\ mutex' = Tok(R)
    /\ rpc' = "chk"
    /\ UNCHANGED <<slot, waiting, chan, cpc, tok, ncalls, rtok, next, processed, answered>>

(* notify: wait_while(|t| t.is_some()) *)
RPark ==
    /\ rpc = "chk" /\ slot # None
    /\ waiting' = waiting \cup {R}
    /\ mutex' = None
    /\ rpc' = "wait"
    /\ UNCHANGED <<slot, chan, cpc, tok, ncalls, rtok, next, processed, answered>>

(* *guard = Some(token); notify_all; unlock *)
RPublish ==
    /\ rpc = "chk" /\ slot = None
    /\ slot' = Tok(rtok)
    /\ answered' = answered \cup {rtok}
    /\ mutex' = None
    /\ WakeAll(cpc, "recv")
    /\ UNCHANGED <<chan, tok, ncalls, rtok, next, processed>>

(* a spurious wake-up of one parked process *)
SpuriousWake(p) ==
    /\ Spurious /\ p \in waiting
    /\ waiting' = waiting \ {p}
    /\ IF p = R THEN rpc' = "acq" /\ UNCHANGED cpc
                ELSE cpc' = [cpc EXCEPT ![p] = "acq"] /\ UNCHANGED rpc
    /\ UNCHANGED <<mutex, slot, chan, tok, ncalls, rtok, next, processed, answered>>

AllDone == \A c \in Callers : cpc[c] = "idle" /\ ncalls[c] = MaxCalls
Finished == AllDone /\ UNCHANGED vars

Next ==
    \/ \E c \in Callers : Request(c) \/ CLock(c) \/ CPark(c) \/ CConsume(c) \/ Return(c)
    \/ RRecv \/ RWork \/ RLock \/ RPark \/ RPublish
    \/ \E p \in Procs : SpuriousWake(p)
    \/ Finished

Spec == Init /\ [][Next]_vars

Fairness ==
    /\ \A c \in Callers : WF_vars(CLock(c)) /\ WF_vars(CPark(c)) /\ WF_vars(CConsume(c)) /\ WF_vars(Return(c))
    /\ WF_vars(RRecv) /\ WF_vars(RWork) /\ WF_vars(RLock) /\ WF_vars(RPark) /\ WF_vars(RPublish)
FairSpec == Spec /\ Fairness

------------------------------------------------------------------------------
TypeOK ==
    /\ mutex \in {None} \cup {Tok(p) : p \in Procs}
    /\ waiting \subseteq Procs
    /\ cpc \in [Callers -> {"idle", "acq", "chk", "wait", "done"}]
    /\ rpc \in {"recv", "work", "acq", "chk", "wait"}

InCall(c) == cpc[c] \in {"acq", "chk", "wait"}

(* The mutex is held exactly by the process that is in its critical section *)
MutexOK ==
    /\ \A c \in Callers : (cpc[c] = "chk") <=> (mutex = Tok(c))
    /\ (rpc = "chk") <=> (mutex = Tok(R))
    /\ \A c \in Callers : (cpc[c] = "wait") <=> (c \in waiting)
    /\ (rpc = "wait") <=> (R \in waiting)

(* Each caller is released by the answer to its own request, and only after *)
(* the reloader has finished the pass that request triggered.               *)
OwnAnswer == \A c \in Callers : cpc[c] = "done" => (tok[c] \in processed /\ tok[c] \in answered)

(* The slot only ever holds the token of a caller that is still waiting.    *)
SlotForWaiter == slot # None => \E c \in Callers : InCall(c) /\ slot = Tok(tok[c])

(* Nobody is parked for good: a parked caller whose answer is in the slot,  *)
(* or a parked reloader facing an empty slot, is a lost wake-up.            *)
NoLostWakeup ==
    /\ \A c \in Callers : (c \in waiting /\ slot = Tok(tok[c])) => FALSE
    /\ (R \in waiting /\ slot = None) => FALSE

(* Every call returns (checked under FairSpec). *)
AllReturn == \A c \in Callers : (cpc[c] = "acq") ~> (cpc[c] = "done")
==============================================================================
