----------------------------- MODULE AssetCache -----------------------------
(***************************************************************************)
(* The asset cache as one sequential client sees it, together with the     *)
(* reloader's bookkeeping (dependency graph, pending events, passes).      *)
(*                                                                         *)
(* One action per public call; what a load computes is AMTypes!LoadKey.    *)
(* The reloader side is at the grain of its message loop:                  *)
(*   Drain  = the `cache_msg.try_recv()` loop  (hot_reloading/mod.rs:239)  *)
(*   TakeEv = `events.try_recv()` + handle_events (mod.rs:258, paths.rs:84)*)
(*   Pass   = run_update                        (paths.rs:134-141)         *)
(* The concurrency of that loop (select, answers, lifetime) is refined in  *)
(* Reloader.tla / Answers.tla; here the client is sequential and uses the  *)
(* `Sync` barrier (all sent batches dequeued) before `HotReload`, which is *)
(* the reading of "the change has been notified" fixed in DESIGN.md.       *)
(*                                                                         *)
(* Constants select as-built or repaired behaviour:                        *)
(*   FixGoi    get_or_insert entries are static and a reload skips static  *)
(*             entries (D7)                                                *)
(***************************************************************************)
EXTENDS AMTypes

CONSTANTS
    Keys,        \* the keys a scenario may touch
    Files,       \* the <<id, ext>> pairs that may exist in the source
    DirsU,       \* directory ids that may be created explicitly
    Scripts,     \* Key -> script, for the node keys
    InitSrcs,    \* set of initial sources: functions Files -> content (None = absent)
    InitDirs,    \* explicit directories present initially
    HasReloader, \* the cache was built with a hot-reloadable source
    FixGoi

VARIABLES
    env,        \* the environment record of AMTypes (cache, source, messages, counters)
    graph,      \* reloader: Dep -> [typ, deps, rdeps]   (DepsGraph)
    toReload,   \* reloader: entries changed and not yet applied (to_reload)
    evq,        \* event channel: sequence of batches (sets of entries) not yet dequeued
    mode,       \* "local" | "static" (CacheKind)
    ver,        \* ver[f]: number of edits of source entry f         (history)
    handled,    \* handled[f]: ver[f] when f was last dequeued as known (history)
    d8,         \* TRUE once a pass rewired an asset onto one reloaded later in it
    last        \* result of the last call (what the client observed)

vars == <<env, graph, toReload, evq, mode, ver, handled, d8, last>>

NoGraph == [d \in {} |-> 0]
Node(typ, deps, rdeps) == [typ |-> typ, deps |-> deps, rdeps |-> rdeps]

Entries == {FileE(f[1], f[2]) : f \in Files} \cup {DirE(d) : d \in DirsU \cup {""}}

EmptyEnv(src0, dirs0) ==
    [cache |-> [k \in Keys |-> None], src |-> src0, dirs |-> dirs0, baddirs |-> [d \in {} |-> "x"],
     hasR |-> HasReloader, msgs |-> <<>>, gen |-> 1, nread |-> 0, nrdir |-> 0, nldr |-> 0,
     fault |-> None, dropped |-> {}, reads |-> <<>>, fixGoi |-> FixGoi]

-----------------------------------------------------------------------------
(* DepsGraph::insert (dependencies.rs:88-121) *)
GraphInsert(g, key, deps) ==
    LET withR == [d \in DOMAIN g \cup deps \cup {key} |->
                    IF d \in DOMAIN g
                    THEN IF d \in deps THEN [g[d] EXCEPT !.rdeps = @ \cup {key}] ELSE g[d]
                    ELSE Node(FALSE, {}, IF d \in deps THEN {key} ELSE {})]
        old   == IF key \in DOMAIN g THEN g[key].deps ELSE {}
        removed == IF key \in DOMAIN g THEN old \ deps ELSE {}
    IN [d \in DOMAIN withR |->
          IF d = key THEN [withR[d] EXCEPT !.typ = TRUE, !.deps = deps]
          ELSE IF d \in removed THEN [withR[d] EXCEPT !.rdeps = @ \ {key}]
          ELSE withR[d]]

RECURSIVE DrainMsgs(_, _, _)
(* process every pending cache message in order; returns [g, tr] *)
DrainMsgs(msgs, g, tr) ==
    IF msgs = <<>> THEN [g |-> g, tr |-> tr]
    ELSE LET m == Head(msgs) IN
         IF "clear" \in DOMAIN m THEN DrainMsgs(Tail(msgs), g, {})
         ELSE DrainMsgs(Tail(msgs), GraphInsert(g, AssetD(m.key), m.deps), tr)

(* assets reachable from the changed entries through reverse dependencies *)
RECURSIVE Reach(_, _, _)
Reach(g, frontier, seen) ==
    IF frontier = {} THEN seen
    ELSE LET nxt == UNION {g[d].rdeps : d \in frontier \cap DOMAIN g} \ seen
         IN Reach(g, nxt, seen \cup nxt)

Affected(g, changed) == {d \in Reach(g, changed \cap DOMAIN g, {}) : d.k = "asset"}

TypeSeq == <<"L0", "L1", "L2", "L3", "L4", "L5", "L6", "L7", "N0", "N1", "N2", "N3", "N4", "N5",
             "DL0", "DL1", "DL2", "RL0", "RL1", "S0">>
IdxOf(seq, x) == CHOOSE i \in 1..Len(seq) : seq[i] = x
(* any fixed total order on keys will do *)
KeyLess(a, b) == \/ IdxOf(TypeSeq, a.ty) < IdxOf(TypeSeq, b.ty)
                 \/ (a.ty = b.ty /\ IdxOf(IdSeq, a.id) < IdxOf(IdSeq, b.id))

(* A dependencies-first order of the affected assets w.r.t. the graph as it  *)
(* is when the pass starts (what topological_sort_from yields on a DAG).     *)
RECURSIVE TopoOrder(_, _, _)
TopoOrder(g, remaining, acc) ==
    IF remaining = {} THEN acc
    ELSE LET ready == {d \in remaining : g[d].deps \cap remaining = {}}
             pool  == IF ready = {} THEN remaining ELSE ready     \* cycle: any
             pick  == CHOOSE d \in pool : \A o \in pool : o = d \/ KeyLess(d, o)
         IN TopoOrder(g, remaining \ {pick}, Append(acc, pick))

(* closure of dependencies in the old graph *)
RECURSIVE DepClosure(_, _, _)
DepClosure(g, frontier, seen) ==
    IF frontier = {} THEN seen
    ELSE LET nxt == UNION {g[d].deps : d \in frontier \cap DOMAIN g} \ seen
         IN DepClosure(g, nxt, seen \cup nxt)

(* DepsGraph::reload + AnyCache::reload_untyped for one key *)
ReloadOne(E, g, d) ==
    LET k == Key(d.ty, d.id) IN
    IF d \notin DOMAIN g \/ ~g[d].typ \/ E.cache[k] = None THEN [E |-> E, g |-> g, ok |-> FALSE, ran |-> FALSE]
    ELSE IF FixGoi /\ ~E.cache[k].dyn THEN [E |-> E, g |-> g, ok |-> FALSE, ran |-> FALSE]
    ELSE LET r == LoadKey(E, RecOff, k, "reload", Scripts) IN
         IF r.ok
         THEN LET old == r.E.cache[k]
                  E2  == [r.E EXCEPT !.cache[k] = [old EXCEPT !.val = r.val, !.rid = @ + 1, !.tok = r.tok],
                                     !.dropped = @ \cup {old.tok}]
              IN [E |-> E2, g |-> GraphInsert(g, d, r.deps), ok |-> TRUE, ran |-> TRUE, deps |-> r.deps]
         ELSE [E |-> r.E, g |-> g, ok |-> FALSE, ran |-> TRUE]

(* The order of a pass is computed on the graph as it is when the pass starts *)
(* (g0).  When a reload makes k depend on an asset that is reloaded in the    *)
(* same pass and that the old graph did not order before k, the outcome       *)
(* depends on the (hash) iteration order of the real sort: flagged `d8`.      *)
RECURSIVE PassLoop(_, _, _, _, _, _)
PassLoop(E, g, order, i, flag, g0) ==
    IF i > Len(order) THEN [E |-> E, g |-> g, d8 |-> flag]
    ELSE LET r == ReloadOne(E, g, order[i])
             inPass == {order[j] : j \in 1..Len(order)} \ {order[i]}
             before == DepClosure(g0, {order[i]}, {})
             risky == r.ok /\ ((r.deps \cap inPass) \ before) # {}
         IN PassLoop(r.E, r.g, order, i + 1, flag \/ risky, g0)

(* run_update *)
RunPass(E, g, changed) ==
    LET order == TopoOrder(g, Affected(g, changed), <<>>) IN
    PassLoop(E, g, order, 1, FALSE, g)

-----------------------------------------------------------------------------
Init ==
    /\ \E s0 \in InitSrcs : env = EmptyEnv(s0, InitDirs)
    /\ graph = NoGraph /\ toReload = {} /\ evq = <<>> /\ mode = "local"
    /\ ver = [e \in Entries |-> 0] /\ handled = [e \in Entries |-> 0]
    /\ d8 = FALSE
    /\ last = [op |-> "init"]

ErrView(err) == err      \* errors are already plain records

Res(op, r) == IF r.ok THEN [op |-> op, ok |-> TRUE, val |-> r.val]
              ELSE [op |-> op, ok |-> FALSE, err |-> r.err]

(* the public calls ------------------------------------------------------ *)
Load(k) ==
    /\ TypeInfo[k.ty].kind # "stor"
    /\ LET r == LoadKey(env, RecOff, k, "load", Scripts) IN
        /\ env' = r.E
        /\ last' = [Res("load", r) EXCEPT !.op = "load"] @@ [ty |-> k.ty, id |-> k.id]
    /\ UNCHANGED <<graph, toReload, evq, mode, ver, handled, d8>>

LoadOwned(k) ==
    /\ TypeInfo[k.ty].kind # "stor"
    /\ LET r == LoadKey(env, RecOff, k, "owned", Scripts) IN
        /\ env' = IF r.ok THEN [r.E EXCEPT !.dropped = @ \cup {r.tok}] ELSE r.E
        /\ last' = Res("owned", r) @@ [ty |-> k.ty, id |-> k.id]
    /\ UNCHANGED <<graph, toReload, evq, mode, ver, handled, d8>>

GetCached(k) ==
    /\ last' = [op |-> "get", ty |-> k.ty, id |-> k.id, ok |-> env.cache[k] # None,
                val |-> IF env.cache[k] # None THEN env.cache[k].val ELSE None]
    /\ UNCHANGED <<env, graph, toReload, evq, mode, ver, handled, d8>>

Contains(k) ==
    /\ last' = [op |-> "contains", ty |-> k.ty, id |-> k.id, ok |-> env.cache[k] # None]
    /\ UNCHANGED <<env, graph, toReload, evq, mode, ver, handled, d8>>

GetOrInsert(k, n) ==
    /\ LET s == Instr(env, RecOff, k, IGoi(k.ty, k.id, n), Scripts) IN
        /\ env' = s.E
        /\ last' = [op |-> "goi", ty |-> k.ty, id |-> k.id, n |-> n, ok |-> TRUE, val |-> s.obs.v]
    /\ UNCHANGED <<graph, toReload, evq, mode, ver, handled, d8>>

(* remove / take / clear need &mut: only in local mode (a 'static cache is never exclusive) *)
Remove(k) ==
    /\ mode = "local"
    /\ env' = IF env.cache[k] = None THEN env
              ELSE [env EXCEPT !.cache[k] = None, !.dropped = @ \cup {env.cache[k].tok}]
    /\ last' = [op |-> "remove", ty |-> k.ty, id |-> k.id, ok |-> env.cache[k] # None]
    /\ UNCHANGED <<graph, toReload, evq, mode, ver, handled, d8>>

Take(k) ==
    /\ mode = "local"
    /\ env' = IF env.cache[k] = None THEN env
              ELSE [env EXCEPT !.cache[k] = None, !.dropped = @ \cup {env.cache[k].tok}]
    /\ last' = [op |-> "take", ty |-> k.ty, id |-> k.id, ok |-> env.cache[k] # None,
                val |-> IF env.cache[k] # None THEN env.cache[k].val ELSE None]
    /\ UNCHANGED <<graph, toReload, evq, mode, ver, handled, d8>>

Clear ==
    /\ mode = "local"
    /\ env' = [env EXCEPT !.cache = [k \in Keys |-> None],
                          !.dropped = @ \cup {env.cache[k].tok : k \in {x \in Keys : env.cache[x] # None}},
                          !.msgs = IF env.hasR THEN Append(@, [clear |-> TRUE]) ELSE @]
    /\ last' = [op |-> "clear"]
    /\ UNCHANGED <<graph, toReload, evq, mode, ver, handled, d8>>

(* the environment ------------------------------------------------------- *)
Edit(f, c) ==
    /\ env.src[f] # c
    /\ env' = [env EXCEPT !.src[f] = c]
    /\ ver' = [ver EXCEPT ![FileE(f[1], f[2])] = @ + 1]
    /\ last' = [op |-> "edit", id |-> f[1], ext |-> f[2], c |-> c]
    /\ UNCHANGED <<graph, toReload, evq, mode, handled, d8>>

MkDir(d) ==
    /\ d \notin env.dirs
    /\ env' = [env EXCEPT !.dirs = @ \cup {d}]
    /\ last' = [op |-> "mkdir", id |-> d]
    /\ UNCHANGED <<graph, toReload, evq, mode, ver, handled, d8>>

RmDir(d) ==
    /\ d \in env.dirs
    /\ env' = [env EXCEPT !.dirs = @ \ {d}]
    /\ last' = [op |-> "rmdir", id |-> d]
    /\ UNCHANGED <<graph, toReload, evq, mode, ver, handled, d8>>

Arm(what, at, kind) ==
    /\ env.fault = None
    /\ env' = [env EXCEPT !.fault = [what |-> what, at |-> at, kind |-> kind],
                          !.nread = 0, !.nrdir = 0, !.nldr = 0]
    /\ last' = [op |-> "arm", what |-> what, at |-> at, kind |-> kind]
    /\ UNCHANGED <<graph, toReload, evq, mode, ver, handled, d8>>

Disarm ==
    /\ env.fault # None
    /\ env' = [env EXCEPT !.fault = None]
    /\ last' = [op |-> "disarm"]
    /\ UNCHANGED <<graph, toReload, evq, mode, ver, handled, d8>>

Send(batch) ==
    /\ HasReloader
    /\ evq' = Append(evq, batch)
    /\ last' = [op |-> "send", batch |-> batch]
    /\ UNCHANGED <<env, graph, toReload, mode, ver, handled, d8>>

(* the reloader ----------------------------------------------------------- *)
(* Sync: the reloader has drained its cache messages and dequeued every     *)
(* batch sent so far (handle_events), in static mode running a pass after   *)
(* each batch.                                                              *)
RECURSIVE TakeAll(_, _, _, _, _, _)
TakeAll(q, E, g, tr, hd, flag) ==
    IF q = <<>> THEN [E |-> E, g |-> g, tr |-> tr, hd |-> hd, d8 |-> flag]
    ELSE LET dm == DrainMsgs(E.msgs, g, tr)
             E1 == [E EXCEPT !.msgs = <<>>]
             known == {e \in Head(q) : e \in DOMAIN dm.g}
             tr1 == dm.tr \cup known
             hd1 == [e \in DOMAIN hd |-> IF e \in known THEN ver[e] ELSE hd[e]]
         IN IF mode = "static"
            THEN LET p == RunPass(E1, dm.g, tr1) IN TakeAll(Tail(q), p.E, p.g, {}, hd1, flag \/ p.d8)
            ELSE TakeAll(Tail(q), E1, dm.g, tr1, hd1, flag)

SyncFrom(q) ==
    /\ HasReloader
    /\ LET t  == TakeAll(q, env, graph, toReload, handled, d8)
           dm == DrainMsgs(t.E.msgs, t.g, t.tr) IN
        /\ env' = [t.E EXCEPT !.msgs = <<>>]
        /\ graph' = dm.g /\ toReload' = dm.tr /\ handled' = t.hd /\ d8' = t.d8
    /\ evq' = <<>>
    /\ UNCHANGED <<mode, ver>>

Sync == SyncFrom(evq) /\ last' = [op |-> "sync"]

(* send one batch and wait until the reloader has dequeued it *)
Notify(batch) == SyncFrom(Append(evq, batch)) /\ last' = [op |-> "notify", batch |-> batch]

(* hot_reload(): Ptr message; cache messages sent before it are applied first *)
HotReload ==
    /\ evq = <<>>          \* the client synchronised first (DESIGN.md: notified = dequeued)
    /\ IF ~HasReloader THEN UNCHANGED <<env, graph, toReload, d8>>
       ELSE LET dm == DrainMsgs(env.msgs, graph, toReload)
                E1 == [env EXCEPT !.msgs = <<>>] IN
            IF mode = "local"
            THEN LET p == RunPass(E1, dm.g, dm.tr) IN
                 /\ env' = p.E /\ graph' = p.g /\ toReload' = {} /\ d8' = (d8 \/ p.d8)
            ELSE /\ env' = E1 /\ graph' = dm.g /\ toReload' = dm.tr /\ UNCHANGED d8
    /\ last' = [op |-> "hot_reload"]
    /\ UNCHANGED <<evq, mode, ver, handled>>

(* enhance_hot_reloading(): Static message; switches the reloader to static mode and runs a pass *)
Enhance ==
    /\ evq = <<>>
    /\ IF ~HasReloader \/ mode = "static" THEN UNCHANGED <<env, graph, toReload, mode, d8>>
       ELSE LET dm == DrainMsgs(env.msgs, graph, toReload)
                E1 == [env EXCEPT !.msgs = <<>>]
                p  == RunPass(E1, dm.g, dm.tr) IN
            /\ env' = p.E /\ graph' = p.g /\ toReload' = {} /\ d8' = (d8 \/ p.d8) /\ mode' = "static"
    /\ last' = [op |-> "enhance"]
    /\ UNCHANGED <<evq, ver, handled>>

-----------------------------------------------------------------------------
(* Properties *)

Cached == {k \in Keys : env.cache[k] # None}

(* C10: what is declared non-reloadable is never rewritten *)
Protected(k) == env.cache[k] # None /\ (env.cache[k].origin = "insert" \/ ~TypeInfo[k.ty].hot \/ ~HasReloader)
NeverRewritten ==
    [][\A k \in Keys : (Protected(k) /\ env'.cache[k] # None /\ env'.cache[k].tok = env.cache[k].tok)
                          => env'.cache[k] = env.cache[k]]_vars
StaticEntry == \A k \in Keys : (env.cache[k] # None /\ (~TypeInfo[k.ty].hot \/ ~HasReloader)) => ~env.cache[k].dyn
InsertedNeverReloaded == \A k \in Keys : (env.cache[k] # None /\ env.cache[k].origin = "insert") => env.cache[k].rid = 0

(* C06: the reload id moves by one, only on a rewrite of the same entry *)
RidStep ==
    [][\A k \in Keys : (env.cache[k] # None /\ env'.cache[k] # None /\ env'.cache[k].rid # env.cache[k].rid)
          => (env'.cache[k].rid = env.cache[k].rid + 1 \/ env'.cache[k].rid = 0)]_vars
FreshEntryNever == \A k \in Keys : env.cache[k] # None => env.cache[k].rid >= 0

(* C02: a call on k changes the cache only at k and at keys nested loads cached *)
NoOverwrite ==
    [][\A k \in Keys : (env.cache[k] # None /\ env'.cache[k] # None /\ env'.cache[k].tok # env.cache[k].tok)
          => last'.op \in {"hot_reload", "sync", "enhance"}]_vars
FailedLoadNoInsert ==
    [][(last'.op \in {"load", "owned"} /\ ~last'.ok) => env'.cache[Key(last'.ty, last'.id)] = env.cache[Key(last'.ty, last'.id)]]_vars
OwnedNoInsert ==
    [][(last'.op = "owned") => env'.cache[Key(last'.ty, last'.id)] = env.cache[Key(last'.ty, last'.id)]]_vars

(* C13 (sequential part): a token is dropped at most once and never while cached *)
NoUseAfterDrop == \A k \in Keys : env.cache[k] # None => env.cache[k].tok \notin env.dropped

(* C05: convergence.  An entry is pending when an edit has not been dequeued as a known event. *)
Pending(e) == handled[e] < ver[e]

RECURSIVE FileDepsOf(_, _)
FileDepsOf(d, seen) ==
    IF d \notin DOMAIN graph \/ d \in seen THEN {}
    ELSE {x \in graph[d].deps : x.k # "asset"}
         \cup UNION {FileDepsOf(x, seen \cup {d}) : x \in {y \in graph[d].deps : y.k = "asset"}}

Quiet == env.msgs = <<>> /\ evq = <<>> /\ (mode = "static" \/ toReload = {})

Converged ==
    (Quiet /\ ~d8) =>
      \A k \in Keys :
        (/\ env.cache[k] # None /\ env.cache[k].dyn /\ env.cache[k].origin = "load"
         /\ AssetD(k) \in DOMAIN graph /\ graph[AssetD(k)].typ
         /\ \A e \in FileDepsOf(AssetD(k), {}) : e \in Entries => ~Pending(e))
        => LET f == Fresh(env, k, Scripts) IN f.ok => env.cache[k].val = f.val

=============================================================================
