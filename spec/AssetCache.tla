----------------------------- MODULE AssetCache -----------------------------
(***************************************************************************)
(* The asset cache as one sequential client sees it, together with the     *)
(* reloader's bookkeeping (dependency graph, pending events, passes).      *)
(*                                                                         *)
(* One action per public call; what a load computes is AMTypes!LoadKey.    *)
(* The reloader side is at the grain of its message loop:                  *)
(*   Drain  = the `cache_msg.try_recv()` loop  (hot_reloading/mod.rs:239)  *)
(*   TakeEv = `events.try_recv()` + handle_events (mod.rs:258, paths.rs:84)*)
(*   Pass   = run_update                        (paths.rs:134-141)         *)
(* The concurrency of that loop (select, answers, lifetime) is refined in  *)
(* Reloader.tla / Answers.tla; here the client is sequential and uses the  *)
(* `Sync` barrier (all sent batches dequeued) before `HotReload`, which is *)
(* the reading of "the change has been notified" fixed in DESIGN.md.       *)
(*                                                                         *)
(* Constants select as-built or repaired behaviour:                        *)
(*   FixGoi    get_or_insert entries are static and a reload skips static  *)
(*             entries (D7)                                                *)
(***************************************************************************)
EXTENDS DepsGraph

CONSTANTS
    Keys,        \* the keys a scenario may touch
    Files,       \* the <<id, ext>> pairs that may exist in the source
    DirsU,       \* directory ids that may be created explicitly
    Scripts,     \* Key -> script, for the node keys
    InitSrcs,    \* set of initial sources: functions Files -> content (None = absent)
    InitDirs,    \* explicit directories present initially
    HasReloader, \* the cache was built with a hot-reloadable source
    FixGoi,
    OrderFirst   \* tie-break of the pass order among unordered assets (both are real orders)

VARIABLES
    env,        \* the environment record of AMTypes (cache, source, messages, counters)
    graph,      \* reloader: Dep -> [typ, deps, rdeps]   (DepsGraph)
    toReload,   \* reloader: entries changed and not yet applied (to_reload)
    evq,        \* event channel: sequence of batches (sets of entries) not yet dequeued
    mode,       \* "local" | "static" (CacheKind)
    ver,        \* ver[f]: number of edits of source entry f         (history)
    handled,    \* handled[f]: ver[f] when f was last dequeued as known (history)
    d8,         \* TRUE once a pass rewired an asset onto one reloaded later in it
    od,         \* TRUE once the outcome of a pass depended on an order the code does not promise
    last        \* result of the last call (what the client observed)

vars == <<env, graph, toReload, evq, mode, ver, handled, d8, od, last>>


Entries == {FileE(f[1], f[2]) : f \in Files} \cup {DirE(d) : d \in AllIds}
(* creating or deleting an entry changes the listing of its directory (and, through *)
(* implied directories, possibly of the directories above it)                       *)
BumpDirs(v, id) == [e \in DOMAIN v |-> IF e.k = "dir" /\ e.id \in Ancestors(id) THEN v[e] + 1 ELSE v[e]]

EmptyEnv(src0, dirs0) ==
    [cache |-> [k \in Keys |-> None], src |-> src0, dirs |-> dirs0, baddirs |-> [d \in {} |-> "x"],
     hasR |-> HasReloader, msgs |-> <<>>, gen |-> 1, nread |-> 0, nrdir |-> 0, nldr |-> 0,
     fault |-> None, dropped |-> {}, reads |-> <<>>, fixGoi |-> FixGoi, unrec |-> {}, looked |-> {}, track |-> FALSE, stale |-> {}, fhit |-> FALSE, taint |-> {}]

-----------------------------------------------------------------------------
RECURSIVE DrainMsgs(_, _, _)
(* process every pending cache message in order; returns [g, tr] *)
DrainMsgs(msgs, g, tr) ==
    IF msgs = <<>> THEN [g |-> g, tr |-> tr]
    ELSE LET m == Head(msgs) IN
         IF "clear" \in DOMAIN m THEN DrainMsgs(Tail(msgs), g, {})
         ELSE DrainMsgs(Tail(msgs), GraphInsert(g, AssetD(m.key), m.deps), tr)

(* DepsGraph::reload + AnyCache::reload_untyped for one key *)
ReloadOne(E, g, d) ==
    LET k == Key(d.ty, d.id) IN
    IF d \notin DOMAIN g \/ ~g[d].typ \/ E.cache[k] = None THEN [E |-> E, g |-> g, ok |-> FALSE, ran |-> FALSE]
    ELSE IF FixGoi /\ ~E.cache[k].dyn THEN [E |-> E, g |-> g, ok |-> FALSE, ran |-> FALSE]
    ELSE LET r == LoadKey(E, RecOff, k, "reload", Scripts) IN
         IF r.ok
         THEN LET old == r.E.cache[k]
                  E2  == [r.E EXCEPT !.cache[k] = [old EXCEPT !.val = r.val, !.rid = @ + 1, !.tok = r.tok],
                                     !.dropped = @ \cup {old.tok}]
              IN [E |-> [E2 EXCEPT !.stale = @ \ {k}], g |-> GraphInsert(g, d, r.deps), ok |-> TRUE, ran |-> TRUE, deps |-> r.deps]
         ELSE \* a failed reload keeps value, id and dependencies; the asset recovers at its next successful reload
              [E |-> [r.E EXCEPT !.stale = @ \cup {k}], g |-> g, ok |-> FALSE, ran |-> TRUE]

(* The order of a pass is computed on the graph as it is when the pass starts *)
(* (g0).  When a reload makes k depend on an asset that is reloaded in the    *)
(* same pass and that the old graph did not order before k, the outcome       *)
(* depends on the (hash) iteration order of the real sort: flagged `d8`.      *)
(* `od`: the outcome depends on an order the code does not promise and the    *)
(* property does not constrain: a reload looked an asset of the same pass up   *)
(* inside no_record, or a fault is armed while the pass has unordered members. *)
(* also `od`: a member first-loads (or inserts) a key whose presence another member observes with   *)
(* get / contains / get_or_insert, and the graph of the pass start orders neither before the other: *)
(* the observer sees the key or not, depending on the iteration order of the real sort.             *)
RacyBirth(acc, g0) ==
    \E i, j \in 1..Len(acc) :
        /\ i # j /\ (acc[i].born \cap acc[j].looked) # {}
        /\ acc[i].m \notin DepClosure(g0, {acc[j].m}, {})
        /\ acc[j].m \notin DepClosure(g0, {acc[i].m}, {})

RECURSIVE PassLoop(_, _, _, _, _, _, _, _)
PassLoop(E, g, order, i, flag, oflag, g0, acc) ==
    IF i > Len(order) THEN [E |-> [E EXCEPT !.looked = {}, !.track = FALSE], g |-> g, d8 |-> flag, od |-> oflag \/ RacyBirth(acc, g0)]
    ELSE LET r == ReloadOne([E EXCEPT !.unrec = {}, !.looked = {}, !.track = TRUE], g, order[i])
             inPass == {order[j] : j \in 1..Len(order)} \ {order[i]}
             before == DepClosure(g0, {order[i]}, {})
             risky == r.ok /\ ((r.deps \cap inPass) \ before) # {}
             blind == (r.E.unrec \cap inPass) # {}
             born == {k \in DOMAIN E.cache : E.cache[k] = None /\ r.E.cache[k] # None}
         IN PassLoop(r.E, r.g, order, i + 1, flag \/ risky, oflag \/ blind, g0,
                     Append(acc, [m |-> order[i], born |-> born, looked |-> r.E.looked]))

Unordered(g, S) == \E a \in S, b \in S : a # b /\ a \notin DepClosure(g, {b}, {}) /\ b \notin DepClosure(g, {a}, {})

(* run_update *)
RunPass(E, g, changed) ==
    LET aff == Affected(g, changed)
        order == TopoOrderBy(g, aff, <<>>, OrderFirst) IN
    PassLoop(E, g, order, 1, FALSE, E.fault # None /\ Unordered(g, aff), g, <<>>)

-----------------------------------------------------------------------------
Init ==
    /\ \E s0 \in InitSrcs : env = EmptyEnv(s0, InitDirs)
    /\ graph = NoGraph /\ toReload = {} /\ evq = <<>> /\ mode = "local"
    /\ ver = [e \in Entries |-> 0] /\ handled = [e \in Entries |-> 0]
    /\ d8 = FALSE /\ od = FALSE
    /\ last = [op |-> "init"]

ErrView(err) == err      \* errors are already plain records

Res(op, r) == IF r.ok THEN [op |-> op, ok |-> TRUE, val |-> r.val]
              ELSE [op |-> op, ok |-> FALSE, err |-> r.err]

(* the public calls ------------------------------------------------------ *)
Load(k) ==
    /\ TypeInfo[k.ty].kind # "stor"
    /\ LET r == LoadKey(env, RecOff, k, "load", Scripts) IN
        /\ env' = r.E
        /\ last' = [Res("load", r) EXCEPT !.op = "load"] @@ [ty |-> k.ty, id |-> k.id]
    /\ UNCHANGED <<graph, toReload, evq, mode, ver, handled, d8, od>>

LoadOwned(k) ==
    /\ TypeInfo[k.ty].kind # "stor"
    /\ LET r == LoadKey(env, RecOff, k, "owned", Scripts) IN
        /\ env' = IF r.ok THEN [r.E EXCEPT !.dropped = @ \cup {r.tok}] ELSE r.E
        /\ last' = Res("owned", r) @@ [ty |-> k.ty, id |-> k.id]
    /\ UNCHANGED <<graph, toReload, evq, mode, ver, handled, d8, od>>

GetCached(k) ==
    /\ last' = [op |-> "get", ty |-> k.ty, id |-> k.id, ok |-> env.cache[k] # None,
                val |-> IF env.cache[k] # None THEN env.cache[k].val ELSE None]
    /\ UNCHANGED <<env, graph, toReload, evq, mode, ver, handled, d8, od>>

Contains(k) ==
    /\ last' = [op |-> "contains", ty |-> k.ty, id |-> k.id, ok |-> env.cache[k] # None]
    /\ UNCHANGED <<env, graph, toReload, evq, mode, ver, handled, d8, od>>

GetOrInsert(k, n) ==
    /\ LET s == Instr(env, RecOff, k, IGoi(k.ty, k.id, n), Scripts) IN
        /\ env' = s.E
        /\ last' = [op |-> "goi", ty |-> k.ty, id |-> k.id, n |-> n, ok |-> TRUE, val |-> s.obs.v]
    /\ UNCHANGED <<graph, toReload, evq, mode, ver, handled, d8, od>>

(* remove / take / clear need &mut: only in local mode (a 'static cache is never exclusive) *)
Remove(k) ==
    /\ mode = "local"
    /\ env' = IF env.cache[k] = None THEN env
              ELSE [env EXCEPT !.cache[k] = None, !.dropped = @ \cup {env.cache[k].tok}]
    /\ last' = [op |-> "remove", ty |-> k.ty, id |-> k.id, ok |-> env.cache[k] # None]
    /\ UNCHANGED <<graph, toReload, evq, mode, ver, handled, d8, od>>

Take(k) ==
    /\ mode = "local"
    /\ env' = IF env.cache[k] = None THEN env
              ELSE [env EXCEPT !.cache[k] = None, !.dropped = @ \cup {env.cache[k].tok}]
    /\ last' = [op |-> "take", ty |-> k.ty, id |-> k.id, ok |-> env.cache[k] # None,
                val |-> IF env.cache[k] # None THEN env.cache[k].val ELSE None]
    /\ UNCHANGED <<graph, toReload, evq, mode, ver, handled, d8, od>>

Clear ==
    /\ mode = "local"
    /\ env' = [env EXCEPT !.cache = [k \in Keys |-> None],
                          !.dropped = @ \cup {env.cache[k].tok : k \in {x \in Keys : env.cache[x] # None}},
                          !.msgs = IF env.hasR THEN Append(@, [clear |-> TRUE]) ELSE @]
    /\ last' = [op |-> "clear"]
    /\ UNCHANGED <<graph, toReload, evq, mode, ver, handled, d8, od>>

(* the environment ------------------------------------------------------- *)
Edit(f, c) ==
    /\ env.src[f] # c
    /\ env' = [env EXCEPT !.src[f] = c]
    /\ LET v1 == [ver EXCEPT ![FileE(f[1], f[2])] = @ + 1] IN
        ver' = IF (env.src[f] = None) # (c = None) THEN BumpDirs(v1, f[1]) ELSE v1
    /\ last' = [op |-> "edit", id |-> f[1], ext |-> f[2], c |-> c]
    /\ UNCHANGED <<graph, toReload, evq, mode, handled, d8, od>>

MkDir(d) ==
    /\ d \notin env.dirs
    /\ env' = [env EXCEPT !.dirs = @ \cup {d}]
    /\ ver' = BumpDirs(ver, d)
    /\ last' = [op |-> "mkdir", id |-> d]
    /\ UNCHANGED <<graph, toReload, evq, mode, handled, d8, od>>

RmDir(d) ==
    /\ d \in env.dirs
    /\ env' = [env EXCEPT !.dirs = @ \ {d}]
    /\ ver' = BumpDirs(ver, d)
    /\ last' = [op |-> "rmdir", id |-> d]
    /\ UNCHANGED <<graph, toReload, evq, mode, handled, d8, od>>

Arm(what, at, kind) ==
    /\ env.fault = None
    /\ env' = [env EXCEPT !.fault = [what |-> what, at |-> at, kind |-> kind],
                          !.nread = 0, !.nrdir = 0, !.nldr = 0]
    /\ last' = [op |-> "arm", what |-> what, at |-> at, kind |-> kind]
    /\ UNCHANGED <<graph, toReload, evq, mode, ver, handled, d8, od>>

Disarm ==
    /\ env.fault # None
    /\ env' = [env EXCEPT !.fault = None]
    /\ last' = [op |-> "disarm"]
    /\ UNCHANGED <<graph, toReload, evq, mode, ver, handled, d8, od>>

Send(batch) ==
    /\ HasReloader
    /\ evq' = Append(evq, batch)
    /\ last' = [op |-> "send", batch |-> batch]
    /\ UNCHANGED <<env, graph, toReload, mode, ver, handled, d8, od>>

(* the reloader ----------------------------------------------------------- *)
(* Sync: the reloader has drained its cache messages and dequeued every     *)
(* batch sent so far (handle_events), in static mode running a pass after   *)
(* each batch.                                                              *)
RECURSIVE TakeAll(_, _, _, _, _, _, _, _)
TakeAll(q, E, g, tr, hd, flag, oflag, vv) ==
    IF q = <<>> THEN [E |-> E, g |-> g, tr |-> tr, hd |-> hd, d8 |-> flag, od |-> oflag]
    ELSE LET dm == DrainMsgs(E.msgs, g, tr)
             E1 == [E EXCEPT !.msgs = <<>>]
             known == {e \in Head(q) : e \in DOMAIN dm.g}
             tr1 == dm.tr \cup known
             hd1 == [e \in DOMAIN hd |-> IF e \in known THEN vv[e] ELSE hd[e]]
         IN IF mode = "static"
            THEN LET p == RunPass(E1, dm.g, tr1) IN TakeAll(Tail(q), p.E, p.g, {}, hd1, flag \/ p.d8, oflag \/ p.od, vv)
            ELSE TakeAll(Tail(q), E1, dm.g, tr1, hd1, flag, oflag, vv)

SyncFromEnv(E0, vv, q) ==
    /\ HasReloader
    /\ LET t  == TakeAll(q, E0, graph, toReload, handled, d8, od, vv)
           dm == DrainMsgs(t.E.msgs, t.g, t.tr) IN
        /\ env' = [t.E EXCEPT !.msgs = <<>>]
        /\ graph' = dm.g /\ toReload' = dm.tr /\ handled' = t.hd /\ d8' = t.d8 /\ od' = t.od
    /\ evq' = <<>>
    /\ UNCHANGED mode

SyncFrom(q) == SyncFromEnv(env, ver, q) /\ UNCHANGED ver

(* What a real file system does: an edit is notified by the watcher at once -- the *)
(* file itself, and its directory when the file appears or disappears.             *)
EditNotify(f, c) ==
    /\ env.src[f] # c /\ evq = <<>>
    /\ LET v1 == [ver EXCEPT ![FileE(f[1], f[2])] = @ + 1]
           flips == (env.src[f] = None) # (c = None)
           v2 == IF flips THEN BumpDirs(v1, f[1]) ELSE v1
           batch == {FileE(f[1], f[2])} \cup (IF flips THEN {DirE(Parent[f[1]])} ELSE {}) IN
        /\ ver' = v2
        /\ SyncFromEnv([env EXCEPT !.src[f] = c], v2, <<batch>>)
    /\ last' = [op |-> "editn", id |-> f[1], ext |-> f[2], c |-> c, flips |-> (env.src[f] = None) # (c = None)]

Sync == SyncFrom(evq) /\ last' = [op |-> "sync"]

(* send one batch and wait until the reloader has dequeued it; a cache without reloader has nobody *)
(* to send to: whatever its source does with notifications, nothing changes                      *)
Notify(batch) ==
    /\ IF HasReloader THEN SyncFrom(Append(evq, batch))
       ELSE UNCHANGED <<env, graph, toReload, evq, mode, ver, handled, d8, od>>
    /\ last' = [op |-> "notify", batch |-> batch]

(* hot_reload(): Ptr message; cache messages sent before it are applied first *)
HotReload ==
    /\ evq = <<>>          \* the client synchronised first (DESIGN.md: notified = dequeued)
    /\ IF ~HasReloader THEN UNCHANGED <<env, graph, toReload, d8, od>>
       ELSE LET dm == DrainMsgs(env.msgs, graph, toReload)
                E1 == [env EXCEPT !.msgs = <<>>] IN
            IF mode = "local"
            THEN LET p == RunPass(E1, dm.g, dm.tr) IN
                 /\ env' = p.E /\ graph' = p.g /\ toReload' = {} /\ d8' = (d8 \/ p.d8) /\ od' = (od \/ p.od)
            ELSE /\ env' = E1 /\ graph' = dm.g /\ toReload' = dm.tr /\ UNCHANGED <<d8, od>>
    /\ last' = [op |-> "hot_reload"]
    /\ UNCHANGED <<evq, mode, ver, handled>>

(* enhance_hot_reloading(): Static message; switches the reloader to static mode and runs a pass *)
Enhance ==
    /\ evq = <<>>
    /\ IF ~HasReloader \/ mode = "static" THEN UNCHANGED <<env, graph, toReload, mode, d8, od>>
       ELSE LET dm == DrainMsgs(env.msgs, graph, toReload)
                E1 == [env EXCEPT !.msgs = <<>>]
                p  == RunPass(E1, dm.g, dm.tr) IN
            /\ env' = p.E /\ graph' = p.g /\ toReload' = {} /\ d8' = (d8 \/ p.d8) /\ od' = (od \/ p.od) /\ mode' = "static"
    /\ last' = [op |-> "enhance"]
    /\ UNCHANGED <<evq, ver, handled>>

-----------------------------------------------------------------------------
(* Properties *)

Cached == {k \in Keys : env.cache[k] # None}

(* C10: what is declared non-reloadable is never rewritten *)
Protected(k) == env.cache[k] # None /\ (env.cache[k].origin = "insert" \/ ~TypeInfo[k.ty].hot \/ ~HasReloader)
NeverRewritten ==
    [][\A k \in Keys : (Protected(k) /\ env'.cache[k] # None /\ env'.cache[k].tok = env.cache[k].tok)
                          => env'.cache[k] = env.cache[k]]_vars
StaticEntry == \A k \in Keys : (env.cache[k] # None /\ (~TypeInfo[k.ty].hot \/ ~HasReloader)) => ~env.cache[k].dyn
InsertedNeverReloaded == \A k \in Keys : (env.cache[k] # None /\ env.cache[k].origin = "insert") => env.cache[k].rid = 0

(* C06: the reload id moves by one, only on a rewrite of the same entry *)
RidStep ==
    [][\A k \in Keys : (env.cache[k] # None /\ env'.cache[k] # None /\ env'.cache[k].rid # env.cache[k].rid)
          => (env'.cache[k].rid = env.cache[k].rid + 1 \/ env'.cache[k].rid = 0)]_vars
FreshEntryNever == \A k \in Keys : env.cache[k] # None => env.cache[k].rid >= 0

(* C02: a call on k changes the cache only at k and at keys nested loads cached *)
NoOverwrite ==
    [][\A k \in Keys : (env.cache[k] # None /\ env'.cache[k] # None /\ env'.cache[k].tok # env.cache[k].tok)
          => last'.op \in {"hot_reload", "sync", "enhance"}]_vars
FailedLoadNoInsert ==
    [][(last'.op \in {"load", "owned"} /\ ~last'.ok) => env'.cache[Key(last'.ty, last'.id)] = env.cache[Key(last'.ty, last'.id)]]_vars
OwnedNoInsert ==
    [][(last'.op = "owned") => env'.cache[Key(last'.ty, last'.id)] = env.cache[Key(last'.ty, last'.id)]]_vars

(* C13 (sequential part): a token is dropped at most once and never while cached *)
NoUseAfterDrop == \A k \in Keys : env.cache[k] # None => env.cache[k].tok \notin env.dropped

(* C05: convergence.  An entry is pending when an edit has not been dequeued as a known event. *)
Pending(e) == handled[e] < ver[e]

RECURSIVE FileDepsOf(_, _)
FileDepsOf(d, seen) ==
    IF d \notin DOMAIN graph \/ d \in seen THEN {}
    ELSE {x \in graph[d].deps : x.k # "asset"}
         \cup UNION {FileDepsOf(x, seen \cup {d}) : x \in {y \in graph[d].deps : y.k = "asset"}}

Quiet == env.msgs = <<>> /\ evq = <<>> /\ (mode = "static" \/ toReload = {})

ConvergedIf(guard) ==
    (Quiet /\ guard) =>
      \A k \in Keys :
        (/\ env.cache[k] # None /\ env.cache[k].dyn /\ env.cache[k].origin = "load"
         /\ AssetD(k) \in DOMAIN graph /\ graph[AssetD(k)].typ /\ k \notin env.stale /\ k \notin env.taint
         /\ \A e \in FileDepsOf(AssetD(k), {}) : e \in Entries => ~Pending(e))
        \* reads made inside no_record are not followed by design: compared without them
        => LET f == Fresh(env, k, Scripts) IN f.ok => StripV(env.cache[k].val) = StripV(f.val)

Converged == ConvergedIf(~d8 /\ ~od)
(* negative control: without the d8 guard the as-built order violates convergence (D8) *)
ConvergedStrict == ConvergedIf(~od)

=============================================================================
