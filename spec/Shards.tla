------------------------------- MODULE Shards -------------------------------
(***************************************************************************)
(* C02, the sharding of AssetMap (src/cache.rs:36-75).  The map is an      *)
(* array of 4 * next_power_of_two(cpus) shards; shared accessors           *)
(* (get / insert / contains) go through get_shard, exclusive ones          *)
(* (take / remove) through get_shard_mut; both pick the shard               *)
(* `hash & (len - 1)`.  The sharded structure must behave like ONE map:    *)
(* the abstract map is the union of the shards, every operation answers    *)
(* as it would on that union, and a key lives in at most one shard.         *)
(*                                                                         *)
(*  RoundUp = TRUE, IdxShared = IdxExcl = "mask" : as built                 *)
(*  RoundUp = FALSE with one index by modulo, the other by mask: the two    *)
(*  accessors disagree for shard counts that are not powers of two.         *)
(***************************************************************************)
EXTENDS Naturals, FiniteSets, TLC

CONSTANTS Cpus,          \* values of available_parallelism() to consider
          Hashes,        \* hash values of the keys (one key per hash value)
          RoundUp, IdxShared, IdxExcl

Pow2(n) == CHOOSE p \in {1, 2, 4, 8, 16, 32} : p >= n /\ \A q \in {1, 2, 4, 8, 16, 32} : q >= n => p <= q
NShards(c) == IF RoundUp THEN 4 * Pow2(c) ELSE 4 * c

(* bitwise and with len - 1, on naturals below 64 *)
RECURSIVE And(_, _, _)
And(a, b, bit) == IF bit > 32 THEN 0
                  ELSE (IF (a \div bit) % 2 = 1 /\ (b \div bit) % 2 = 1 THEN bit ELSE 0) + And(a, b, bit * 2)
Index(how, h, n) == IF how = "mask" THEN And(h, n - 1, 1) ELSE h % n

VARIABLES cpus, shards, abs, last
vars == <<cpus, shards, abs, last>>

Init == /\ cpus \in Cpus
        /\ shards = [i \in 0..(NShards(cpus) - 1) |-> {}]
        /\ abs = {} /\ last = [op |-> "init"]

N == NShards(cpus)
Sh(h) == Index(IdxShared, h, N)
Ex(h) == Index(IdxExcl, h, N)

(* shared accessors *)
Insert(h) == /\ shards' = [shards EXCEPT ![Sh(h)] = @ \cup {h}]
             /\ abs' = abs \cup {h}
             /\ last' = [op |-> "insert", h |-> h, won |-> h \notin shards[Sh(h)], wantWon |-> h \notin abs]
             /\ UNCHANGED cpus
Contains(h) == /\ last' = [op |-> "contains", h |-> h, got |-> h \in shards[Sh(h)], want |-> h \in abs]
               /\ UNCHANGED <<cpus, shards, abs>>
(* exclusive accessors *)
Remove(h) == /\ shards' = [shards EXCEPT ![Ex(h)] = @ \ {h}]
             /\ abs' = abs \ {h}
             /\ last' = [op |-> "remove", h |-> h, got |-> h \in shards[Ex(h)], want |-> h \in abs]
             /\ UNCHANGED cpus

Next == \E h \in Hashes : Insert(h) \/ Contains(h) \/ Remove(h)
Spec == Init /\ [][Next]_vars

(* the sharded map refines the plain one *)
UnionIsMap == UNION {shards[i] : i \in DOMAIN shards} = abs
OneHome == \A i, j \in DOMAIN shards : i # j => shards[i] \cap shards[j] = {}
AnswersLikeMap == /\ last.op \in {"contains", "remove"} => last.got = last.want
                  /\ last.op = "insert" => last.won = last.wantWon
InRange == \A h \in Hashes : Sh(h) \in DOMAIN shards /\ Ex(h) \in DOMAIN shards
=============================================================================
