----------------------------- MODULE WatcherSeq -----------------------------
(***************************************************************************)
(* C12, the part Watcher.tla leaves out: the watcher thread converts every *)
(* reported path with ONE IdBuilder that lives across notifications        *)
(* (NotifyEventHandler.id_builder, src/hot_reloading/watcher.rs:129-133,   *)
(* entry_of_path 68-100; IdBuilder push / pop / join / reset,              *)
(* src/utils/private.rs:57-96).  A conversion that gives up half-way       *)
(* (a component with a dot, a `..` above the root) leaves its segments in  *)
(* the builder.  The answer for a path must not depend on what was         *)
(* converted before: EntryOfPath(buf, p) = EntryOfPath(<<>>, p).           *)
(*                                                                         *)
(*   ResetFirst = TRUE  : as built, reset() is the first statement         *)
(*   ResetFirst = FALSE : reset only after a successful join (the segments *)
(*                        of a rejected path stay)                         *)
(*   PopNeedsDot = TRUE : pop() written with `rfind('.')?` - popping the   *)
(*                        only segment fails                               *)
(***************************************************************************)
EXTENDS Naturals, Sequences, FiniteSets, TLC

CONSTANTS Names,        \* nameable components
          Dotted,       \* components that contain a dot (no id)
          MaxLen,       \* components per reported path
          ResetFirst, PopNeedsDot

Par == "<..>"
Cur == "<.>"
Comp == Names \cup Dotted \cup {Par, Cur}
None == <<"none">>

RECURSIVE SeqsUpTo(_)
SeqsUpTo(n) == IF n = 0 THEN {<<>>} ELSE LET s == SeqsUpTo(n - 1) IN s \cup {Append(x, y) : x \in s, y \in Comp}
(* a reported path below the root: parent components, then the stem of the last one *)
Paths == {p \in SeqsUpTo(MaxLen) : p # <<>> /\ p[Len(p)] \in Names \cup Dotted}

(* the builder: a sequence of segments (the dotted string of the code) *)
Push(b, s) == IF s \in Dotted THEN None ELSE Append(b, s)
Pop(b) == IF b = <<>> THEN None
          ELSE IF PopNeedsDot /\ Len(b) = 1 THEN None
          ELSE SubSeq(b, 1, Len(b) - 1)

(* fold the components; gives <<builder after, result>>; on failure the builder keeps what was pushed *)
RECURSIVE Walk(_, _)
Walk(b, comps) ==
    IF comps = <<>> THEN <<b, "ok">>
    ELSE LET c == Head(comps) IN
         IF c = Cur THEN Walk(b, Tail(comps))
         ELSE LET nb == IF c = Par THEN Pop(b) ELSE Push(b, c) IN
              IF nb = None THEN <<b, "fail">> ELSE Walk(nb, Tail(comps))

(* entry_of_path with the builder in state b: <<builder after, id or None>> *)
Convert(b, p) ==
    LET start == IF ResetFirst THEN <<>> ELSE b
        w == Walk(start, p) IN
    IF w[2] = "fail" THEN <<w[1], None>>
    ELSE <<IF ResetFirst THEN w[1] ELSE <<>>, w[1]>>

Fresh(p) == LET w == Walk(<<>>, p) IN IF w[2] = "fail" THEN None ELSE w[1]

VARIABLES buf, got, want
vars == <<buf, got, want>>
Init == buf = <<>> /\ got = None /\ want = None
Notify == \E p \in Paths :
             LET c == Convert(buf, p) IN
             /\ buf' = c[1] /\ got' = c[2] /\ want' = Fresh(p)
Next == Notify
Spec == Init /\ [][Next]_vars

(* the entries named for a notification do not depend on earlier notifications *)
HistoryFree == got = want
(* the id of a nameable path is found: `a/../b.x` below the root is b *)
PopToRootWorks == buf \in Seq(Names \cup Dotted) /\ \A n, m \in Names : Fresh(<<n, Par, m>>) = <<m>>
=============================================================================
