SPECIFICATION Spec
CONSTANTS
  Names = {"a", "b"}
  ExtsW = {"", "x"}
  MaxDepth = 3
  FixRoot = TRUE
  FixRename = TRUE
  FixRemove = TRUE
INVARIANTS RoundTrip Injective TableExact
CHECK_DEADLOCK FALSE
