---------------------------- MODULE Trace_ReloadId ----------------------------
(* Trace validation for C18: Begin/End lines recorded around the real        *)
(* AtomicReloadId calls; the linearization point Lin(t) is a silent step.    *)
EXTENDS ReloadId, Json, IOUtils, TLCExt

Rec == ndJsonDeserialize(IOEnv.TRACE)

VARIABLE l
tvars == <<cur, pc, op, ret, seen, ncalls, offered, forced, trues, growths, l>>

TraceInit == Init /\ l = 1 /\ TLCSet(1, 1)

Ev(name) == l <= Len(Rec) /\ Rec[l].ev = name

TBegin == /\ Ev("Begin")
          /\ Begin(Rec[l].th, Rec[l].op, Rec[l].arg)
          /\ l' = l + 1

TLin == \E t \in Threads : (Lin(t) /\ l' = l)

RetInt(t) == LET v == ret[t].v IN
             IF op[t].name = "update" THEN (IF v THEN 1 ELSE 0) ELSE v

TEnd == /\ Ev("End")
        /\ LET t == Rec[l].th IN
            /\ pc[t] = "ret"
            /\ RetInt(t) = Rec[l].ret
            /\ End(t)
        /\ l' = l + 1

TFinal == /\ Ev("Final")
          /\ Quiescent
          /\ cur = Rec[l].cur
          /\ l' = l + 1
          /\ UNCHANGED vars

TReset == /\ Ev("Reset")
          /\ cur' = NEVER
          /\ pc' = [t \in Threads |-> "idle"]
          /\ op' = [t \in Threads |-> [name |-> "none", arg |-> 0]]
          /\ ret' = [t \in Threads |-> NoRet]
          /\ seen' = [t \in Threads |-> 0]
          /\ ncalls' = [t \in Threads |-> 0]
          /\ offered' = {} /\ forced' = FALSE /\ trues' = 0 /\ growths' = 0
          /\ l' = l + 1

TraceNext == TBegin \/ TLin \/ TEnd \/ TFinal \/ TReset

TraceSpec == TraceInit /\ [][TraceNext]_tvars

Progress == IF l > TLCGet(1) THEN TLCSet(1, l) ELSE TRUE

TraceAccepted ==
    LET n == TLCGet(1) IN
    IF n = Len(Rec) + 1 THEN TRUE
    ELSE /\ PrintT(<<"UNMATCHED", n, ToJson(Rec[n])>>)
         /\ FALSE
=============================================================================
