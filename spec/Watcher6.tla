------------------------------ MODULE Watcher6 ------------------------------
(***************************************************************************)
(* C06 (reporting part).  One entry: value version `val`, reload id `rid`, *)
(* global flag `gflag`, the entry lock; the reloader rewrites it; a        *)
(* polling reader does  watcher.reloaded(); read()  and                    *)
(* reloaded_global(); read().   src/entry.rs:118-134 (write),              *)
(* 651-686 (ReloadWatcher), 300-310 (reloaded_global).                     *)
(*                                                                         *)
(* BumpInsideLock = TRUE : as built, the counter is incremented and the    *)
(*   flag set inside the write lock, after the swap.                       *)
(* BumpInsideLock = FALSE: negative control, the counter is incremented    *)
(*   BEFORE the write lock is taken: a reader can be told "reloaded" and   *)
(*   then still read the old value.                                        *)
(***************************************************************************)
EXTENDS Naturals, FiniteSets, TLC

CONSTANTS MaxWrites, MaxPolls, BumpInsideLock,
          TwoLoads    \* TRUE: reloaded() loads the id once for its answer and once more for what it remembers (a mutant)

VARIABLES val, rid, gflag,      \* the entry
          wlock, readers,       \* the RwLock: writer holds / number of readers
          wpc, nw,              \* reloader pc and rewrites done
          ppc, np,              \* poller pc and polls done
          wlast,                \* ReloadWatcher.last_reload_id
          told, toldG,          \* what the last reloaded() / reloaded_global() returned
          repRid,               \* the rid the watcher reported
          seenVal,              \* value read after the report
          writesSinceW, writesSinceG  \* history: rewrites since the watcher / the flag was last asked

vars == <<val, rid, gflag, wlock, readers, wpc, nw, ppc, np, wlast, told, toldG, repRid, seenVal, writesSinceW, writesSinceG>>

Init == /\ val = 0 /\ rid = 0 /\ gflag = FALSE /\ wlock = FALSE /\ readers = 0
        /\ wpc = "idle" /\ nw = 0 /\ ppc = "idle" /\ np = 0 /\ wlast = 0
        /\ told = FALSE /\ toldG = FALSE /\ repRid = 0 /\ seenVal = 0
        /\ writesSinceW = 0 /\ writesSinceG = 0

U(keep) == UNCHANGED keep

(* reloader: [bump early] ; lock.write ; swap ; [bump, flag] ; unlock *)
WEarly == /\ wpc = "idle" /\ nw < MaxWrites /\ ~BumpInsideLock
          /\ rid' = rid + 1 /\ gflag' = TRUE
          /\ writesSinceW' = writesSinceW + 1 /\ writesSinceG' = writesSinceG + 1
          /\ wpc' = "early"
          /\ U(<<val, wlock, readers, nw, ppc, np, wlast, told, toldG, repRid, seenVal>>)
WLock == /\ wpc = (IF BumpInsideLock THEN "idle" ELSE "early") /\ (BumpInsideLock => nw < MaxWrites)
         /\ ~wlock /\ readers = 0
         /\ wlock' = TRUE /\ wpc' = "locked"
         /\ U(<<val, rid, gflag, readers, nw, ppc, np, wlast, told, toldG, repRid, seenVal, writesSinceW, writesSinceG>>)
WSwap == /\ wpc = "locked"
         /\ val' = val + 1
         /\ IF BumpInsideLock
              THEN /\ rid' = rid + 1 /\ gflag' = TRUE
                   /\ writesSinceW' = writesSinceW + 1 /\ writesSinceG' = writesSinceG + 1
              ELSE U(<<rid, gflag, writesSinceW, writesSinceG>>)
         /\ wpc' = "swapped"
         /\ U(<<wlock, readers, nw, ppc, np, wlast, told, toldG, repRid, seenVal>>)
WUnlock == /\ wpc = "swapped"
           /\ wlock' = FALSE /\ wpc' = "idle" /\ nw' = nw + 1
           /\ U(<<val, rid, gflag, readers, ppc, np, wlast, told, toldG, repRid, seenVal, writesSinceW, writesSinceG>>)

(* poller: watcher.reloaded() ; read() ; reloaded_global() ; read() *)
PWatch == /\ ppc = "idle" /\ np < MaxPolls /\ ~TwoLoads
          /\ told' = (rid > wlast) /\ repRid' = rid
          /\ wlast' = IF rid > wlast THEN rid ELSE wlast
          /\ writesSinceW' = 0
          /\ ppc' = "watched"
          /\ U(<<val, rid, gflag, wlock, readers, wpc, nw, np, toldG, seenVal, writesSinceG>>)
(* the mutant: answer from a first load, remember a second one *)
PWatchA == /\ ppc = "idle" /\ np < MaxPolls /\ TwoLoads
           /\ told' = (rid > wlast) /\ repRid' = rid
           /\ writesSinceW' = 0
           /\ ppc' = "watchA"
           /\ U(<<val, rid, gflag, wlock, readers, wpc, nw, np, wlast, toldG, seenVal, writesSinceG>>)
PWatchB == /\ ppc = "watchA"
           /\ wlast' = IF rid > wlast THEN rid ELSE wlast
           /\ ppc' = "watched"
           /\ U(<<val, rid, gflag, wlock, readers, wpc, nw, np, told, toldG, repRid, seenVal, writesSinceW, writesSinceG>>)
PRead(from, to) ==
          /\ ppc = from /\ ~wlock
          /\ seenVal' = val          \* read lock taken and released in one step: the value is a snapshot
          /\ ppc' = to
          /\ U(<<val, rid, gflag, wlock, readers, wpc, nw, np, wlast, told, toldG, repRid, writesSinceW, writesSinceG>>)
PGlobal == /\ ppc = "read1"
           /\ toldG' = gflag /\ gflag' = FALSE /\ repRid' = rid
           /\ writesSinceG' = 0
           /\ ppc' = "asked"
           /\ U(<<val, rid, wlock, readers, wpc, nw, np, wlast, told, seenVal, writesSinceW>>)
PDone == /\ ppc = "read2" /\ ppc' = "idle" /\ np' = np + 1
         /\ U(<<val, rid, gflag, wlock, readers, wpc, nw, wlast, told, toldG, repRid, seenVal, writesSinceW, writesSinceG>>)

Next == WEarly \/ WLock \/ WSwap \/ WUnlock \/ PWatch \/ PWatchA \/ PWatchB \/ PRead("watched", "read1") \/ PGlobal \/ PRead("asked", "read2") \/ PDone
        \/ (nw = MaxWrites /\ np = MaxPolls /\ UNCHANGED vars)
Spec == Init /\ [][Next]_vars

(* the id counts rewrites: starts at NEVER, one per rewrite *)
RidCounts == BumpInsideLock => (rid = nw + (IF wpc = "swapped" THEN 1 ELSE 0))
(* reloaded() is true exactly when at least one rewrite happened since it was last asked *)
ToldIffWrites ==
    [][(ppc = "idle" /\ ppc' \in {"watched", "watchA"}) => (told' <=> (writesSinceW > 0))]_vars
GlobalIffWrites ==
    [][(ppc = "read1" /\ ppc' = "asked") => (toldG' <=> (writesSinceG > 0))]_vars
(* a value read after a report is at least as new as the reported reload *)
NewAfterReport ==
    /\ (ppc = "read1" /\ told) => seenVal >= repRid
    /\ (ppc = "read2" /\ toldG) => seenVal >= repRid
=============================================================================
