SPECIFICATION Spec
CONSTANTS
  Names = {"p", "q"}
  ExtsU = {"", "x", "y"}
  MaxDepth = 2
  MaxNodes = 3
  FixArchiveAncestors = TRUE
  DirLists = {{"x"}, {"x", "y"}, {""}}
INVARIANTS ArchiveAgrees ListedIsReachable ParentIdAgrees DirAssetsAgree FollowAgrees
VIEW View
CHECK_DEADLOCK FALSE
