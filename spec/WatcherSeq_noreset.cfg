SPECIFICATION Spec
CONSTANTS Names = {"a", "b"}
          Dotted = {"x.y"}
          MaxLen = 3
          ResetFirst = FALSE
          PopNeedsDot = FALSE
INVARIANTS HistoryFree PopToRootWorks
CHECK_DEADLOCK FALSE
