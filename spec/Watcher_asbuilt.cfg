SPECIFICATION Spec
CONSTANTS
  Names = {"a", "b"}
  ExtsW = {"", "x"}
  MaxDepth = 3
  FixRoot = FALSE
  FixRename = FALSE
  FixRemove = FALSE
INVARIANTS RoundTrip TableExact
CHECK_DEADLOCK FALSE
