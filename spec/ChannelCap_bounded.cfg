SPECIFICATION Spec
CONSTANTS Cap = 3 MaxNew = 4
INVARIANT NeverBlocked
CHECK_DEADLOCK FALSE
