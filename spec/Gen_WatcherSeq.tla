--------------------------- MODULE Gen_WatcherSeq ---------------------------
(* History generator for WatcherSeq.tla: every sequence of K reported paths,  *)
(* with the id the specification expects for each (None = no entry named).    *)
(* `amv watchseq-replay` feeds each sequence, as single-path modification     *)
(* notifications, to ONE real event handler and compares what it names.       *)
EXTENDS WatcherSeq, Json

CONSTANT K
VARIABLE hist
GInit == Init /\ hist = <<>>
GNext == /\ Len(hist) < K
         /\ \E p \in Paths :
              LET c == Convert(buf, p) IN
              /\ buf' = c[1] /\ got' = c[2] /\ want' = Fresh(p)
              /\ hist' = Append(hist, [path |-> p, want |-> IF Fresh(p) = None THEN [nil |-> TRUE] ELSE [id |-> Fresh(p)]])
GSpec == GInit /\ [][GNext]_<<vars, hist>>
Emit == Len(hist) = K => PrintT(<<"REPLAY", ToJson(hist)>>)
=============================================================================
