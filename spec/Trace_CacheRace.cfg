SPECIFICATION TraceSpec
CONSTANTS
  Threads = {"t1", "t2", "t3", "t4"}
  Keys = {"a", "b", "z"}
  MaxCalls = 100000000
  OpNames = {"load", "get", "goi", "contains"}
  Replace = FALSE
  FailKeys = {"z"}
INVARIANTS StableHandle SeesWinner PresenceMonotone HandleLive StoredLive
CONSTRAINT Progress
POSTCONDITION TraceAccepted
CHECK_DEADLOCK FALSE
