---------------------------- MODULE ReloadIdInd ----------------------------
(* C18, unbounded: AtomicReloadId::update is ONE atomic step (fetch_max), so   *)
(* every execution of any number of threads is a sequence of Update steps over *)
(* arbitrary ids.  IndInv is inductive (checked by Apalache): the stored id is *)
(* the maximum offered, and TRUE is answered exactly once per strict growth.   *)
EXTENDS Integers, FiniteSets, Apalache

VARIABLES
    \* @type: Int;
    cur,
    \* @type: Set(Int);
    offered,
    \* @type: Int;
    trues,
    \* @type: Int;
    growths,
    \* @type: Bool;
    lastRet,
    \* @type: Int;
    lastOld

Init == cur = 0 /\ offered = {} /\ trues = 0 /\ growths = 0 /\ lastRet = FALSE /\ lastOld = 0

Update == \E new \in Int :
    /\ new >= 0
    /\ cur' = IF new > cur THEN new ELSE cur
    /\ offered' = offered \union {new}
    /\ lastRet' = (new > cur)
    /\ lastOld' = cur
    /\ trues' = IF new > cur THEN trues + 1 ELSE trues
    /\ growths' = IF new > cur THEN growths + 1 ELSE growths

Next == Update

IndInv ==
    /\ cur >= 0 /\ lastOld >= 0 /\ trues >= 0
    /\ \A x \in offered : x >= 0 /\ x <= cur            \* nothing offered exceeds the stored id
    /\ (cur = 0 \/ cur \in offered)                    \* the stored id was offered (or is NEVER)
    /\ trues = growths                                 \* one TRUE per strict growth
    /\ (lastRet <=> cur > lastOld)                     \* TRUE exactly when the stored id grew
    /\ lastOld <= cur                                  \* monotone

\* arbitrary state satisfying the invariant (for the inductive step)
IndInit ==
    /\ cur = Gen(1) /\ offered = Gen(4) /\ trues = Gen(1) /\ growths = Gen(1) /\ lastRet = Gen(1) /\ lastOld = Gen(1)
    /\ IndInv
\* vacuity guard: from IndInit a false invariant must be refuted
Bogus == cur < 3
=============================================================================
