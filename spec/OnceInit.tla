------------------------------ MODULE OnceInit ------------------------------
(***************************************************************************)
(* C17.  OnceInitCell<U, T> (src/utils/cell.rs): a once-cell whose         *)
(* initialiser consumes a seed U and produces the value T.                 *)
(*   once  : "empty" | "running" | "done"   (the OnceCell<()>)             *)
(*   seed / value liveness: "live" | "moved" | "dropped" | "none"          *)
(* K threads call get_or_try_init; each attempt's outcome (ok / err /      *)
(* panic) is chosen nondeterministically; waiters block while another      *)
(* attempt is running; `get` is a single always-enabled atomic read.       *)
(* The seed escapes the closure and is dropped after it (cell.rs:161-194); *)
(* seed types without Drop take the other path (196-215).                  *)
(*                                                                         *)
(*  SeedDropInside = TRUE : negative control, the seed is dropped inside   *)
(*      the initialiser before it can fail.                                *)
(***************************************************************************)
EXTENDS Naturals, FiniteSets, Sequences, TLC

CONSTANTS Threads, MaxAttempts, NeedsDrop, SeedDropInside,
          PublishLate   \* TRUE: the once is completed by the closure and the value is written after it (a mutant)

VARIABLES once, seed, value, runner,
          pc,        \* "idle" | "want" | "init" | "after" | "ret"
          out,       \* result of the call: "none" | "ref" | "err" | "panic"
          attempts, okCount, seedDrops, valueDrops, cellAlive

vars == <<once, seed, value, runner, pc, out, attempts, okCount, seedDrops, valueDrops, cellAlive>>

Init == /\ once = "empty" /\ seed = "live" /\ value = "none" /\ runner = "nobody"
        /\ pc = [t \in Threads |-> "idle"] /\ out = [t \in Threads |-> "none"]
        /\ attempts = 0 /\ okCount = 0 /\ seedDrops = 0 /\ valueDrops = 0 /\ cellAlive = TRUE

Call(t) == /\ cellAlive /\ pc[t] = "idle" /\ attempts < MaxAttempts
           /\ pc' = [pc EXCEPT ![t] = "want"] /\ attempts' = attempts + 1
           /\ UNCHANGED <<once, seed, value, runner, out, okCount, seedDrops, valueDrops, cellAlive>>

(* OnceCell::get_or_try_init: already done -> return the reference *)
Fast(t) == /\ pc[t] = "want" /\ once = "done"
           /\ pc' = [pc EXCEPT ![t] = "ret"] /\ out' = [out EXCEPT ![t] = "ref"]
           /\ UNCHANGED <<once, seed, value, runner, attempts, okCount, seedDrops, valueDrops, cellAlive>>

(* become the initialiser (others block while once = "running") *)
Enter(t) == /\ pc[t] = "want" /\ once = "empty"
            /\ once' = "running" /\ runner' = t /\ pc' = [pc EXCEPT ![t] = "init"]
            /\ seed' = IF SeedDropInside THEN "dropped" ELSE seed
            /\ seedDrops' = IF SeedDropInside THEN seedDrops + 1 ELSE seedDrops
            /\ UNCHANGED <<value, out, attempts, okCount, valueDrops, cellAlive>>

(* f(&mut seed) returns Ok: the state becomes `init`, the seed escapes the closure *)
InitOk(t) == /\ pc[t] = "init" /\ runner = t
             /\ value' = (IF PublishLate THEN value ELSE "live") /\ once' = "done" /\ runner' = "nobody"
             /\ seed' = IF seed = "live" THEN (IF NeedsDrop THEN "moved" ELSE "forgotten") ELSE seed
             /\ okCount' = okCount + 1
             /\ pc' = [pc EXCEPT ![t] = "after"]
             /\ UNCHANGED <<out, attempts, seedDrops, valueDrops, cellAlive>>
(* f returns Err or panics: the cell stays uninitialised and still owns its seed *)
InitFail(t, how) ==
             /\ pc[t] = "init" /\ runner = t
             /\ once' = "empty" /\ runner' = "nobody"
             /\ pc' = [pc EXCEPT ![t] = "ret"] /\ out' = [out EXCEPT ![t] = how]
             /\ UNCHANGED <<seed, value, attempts, okCount, seedDrops, valueDrops, cellAlive>>
(* after the closure: drop the escaped seed (its destructor may panic: the value is already in place) *)
DropSeed(t) == /\ pc[t] = "after"
               /\ IF seed = "moved" THEN seed' = "dropped" /\ seedDrops' = seedDrops + 1 ELSE UNCHANGED <<seed, seedDrops>>
               /\ pc' = [pc EXCEPT ![t] = "ret"]
               /\ out' = [out EXCEPT ![t] = "ref"]
               /\ value' = (IF PublishLate THEN "live" ELSE value)
               /\ UNCHANGED <<once, runner, attempts, okCount, valueDrops, cellAlive>>
Return(t) == /\ pc[t] = "ret" /\ pc' = [pc EXCEPT ![t] = "idle"] /\ out' = [out EXCEPT ![t] = "none"]
             /\ UNCHANGED <<once, seed, value, runner, attempts, okCount, seedDrops, valueDrops, cellAlive>>

(* Drop for OnceInitCell: picks the live arm from the once state *)
DropCell == /\ cellAlive /\ \A t \in Threads : pc[t] = "idle"
            /\ cellAlive' = FALSE
            /\ IF once = "done"
               THEN value' = "dropped" /\ valueDrops' = valueDrops + 1 /\ UNCHANGED <<seed, seedDrops>>
               ELSE /\ UNCHANGED <<value, valueDrops>>
                    /\ IF seed = "live" THEN seed' = "dropped" /\ seedDrops' = seedDrops + 1
                       ELSE seed' = seed /\ seedDrops' = seedDrops + (IF seed = "dropped" THEN 1 ELSE 0)   \* double drop
            /\ UNCHANGED <<once, runner, pc, out, attempts, okCount>>

Next == \/ \E t \in Threads : Call(t) \/ Fast(t) \/ Enter(t) \/ InitOk(t) \/ InitFail(t, "err") \/ InitFail(t, "panic") \/ DropSeed(t) \/ Return(t)
        \/ DropCell \/ (~cellAlive /\ UNCHANGED vars)
Spec == Init /\ [][Next]_vars

(* `get` never blocks and agrees with the state: Some iff done *)
GetView == IF once = "done" THEN "some" ELSE "none"

InitOnce == okCount <= 1
(* a failed or panicking initialiser leaves the cell uninitialised and still owning its seed *)
SeedKept == (once = "empty" /\ cellAlive) => seed = "live"
(* exactly one of the seed and the value exists at any time (while nobody is inside the initialiser) *)
ExactlyOneArm == (cellAlive /\ once # "running") => ((once = "done") <=> (value = "live")) /\ ((once = "empty") <=> (seed = "live"))
DropOnce == seedDrops <= 1 /\ valueDrops <= 1
NoLeak == ~cellAlive => /\ (value \in {"none", "dropped"})
                        /\ (NeedsDrop => seed = "dropped")
(* everybody who gets a reference gets it after the single successful initialisation *)
RefOnlyWhenDone == \A t \in Threads : out[t] = "ref" => once = "done"
(* a reference (from get, or from the fast path of get_or_init on another thread) points at the value: *)
(* the cell reads as initialised only once the value is in place                                       *)
PublishedWhole == (once = "done" /\ cellAlive) => value = "live"
==============================================================================
