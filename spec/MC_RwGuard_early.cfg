SPECIFICATION Spec
CONSTANTS r1 = r1 r2 = r2
  Readers <- R2
  W = 3
  MaxWrites = 2
  MaxReads = 2
  Locked = TRUE
  AnswerAfterPass = FALSE
  StaticMode = FALSE
INVARIANTS Pinned
PROPERTIES ChangeOnlyInHotReload
CHECK_DEADLOCK FALSE
