---------------------------- MODULE MC_ReloadId ----------------------------
EXTENDS ReloadId
CONSTANTS t1, t2, t3
MCThreads3 == {t1, t2, t3}
MCThreads2 == {t1, t2}
MCOpsMax == {"update", "load"}
MCOpsAll == {"update", "fetch_max", "swap", "store", "load"}
MCOpsFM == {"update", "fetch_max", "load"}
=============================================================================
