---------------------------- MODULE ReloadId ----------------------------
(***************************************************************************)
(* C18.  ReloadId / AtomicReloadId (src/entry.rs:688-805).                 *)
(*                                                                         *)
(* One shared AtomicReloadId `cur`, several threads calling its public     *)
(* operations.  Every atomic operation of the code is ONE step (`Lin`);   *)
(* a call is Begin -> Lin -> End so that the trace specification can      *)
(* place the linearization point between the logged Begin and End.        *)
(*                                                                         *)
(* `Atomic = FALSE` replaces update's single fetch_max by load-then-store *)
(* (two steps): the negative control that shows the invariants can fail.  *)
(***************************************************************************)
EXTENDS Naturals, FiniteSets, Sequences, TLC

CONSTANTS Threads,      \* calling threads
          MaxId,        \* ids are 0..MaxId ; 0 is ReloadId::NEVER
          OpNames,      \* subset of {"update","fetch_max","swap","store","load"}
          MaxCalls,     \* calls per thread (bounds the model)
          Atomic        \* TRUE: as built; FALSE: load-then-store mutant

VARIABLES cur,          \* value held by the AtomicReloadId
          pc,           \* pc[t] \in {"idle","called","mid","ret"}
          op,           \* op[t] = [name, arg] of the call in progress
          ret,          \* ret[t] = value returned by the call in progress
          seen,         \* seen[t] = value loaded by a non-atomic update
          ncalls,       \* ncalls[t] = calls started by t
          \* history, only for stating the properties
          offered,      \* ids offered through update / fetch_max
          forced,       \* TRUE once a swap/store happened (max law off)
          trues,        \* number of update calls that returned TRUE
          growths       \* number of steps at which cur strictly grew

vars == <<cur, pc, op, ret, seen, ncalls, offered, forced, trues, growths>>

Ids == 0..MaxId
NEVER == 0
Max(a, b) == IF a >= b THEN a ELSE b
SetMax(S) == CHOOSE x \in S : \A y \in S : y <= x

NoRet == [nil |-> TRUE]
R(v) == [nil |-> FALSE, v |-> v]

(* The sequential ReloadId::update, as a pure function: new value, result. *)
SeqUpdate(self, new) == [val |-> Max(self, new), res |-> new > self]

Init ==
    /\ cur = NEVER
    /\ pc = [t \in Threads |-> "idle"]
    /\ op = [t \in Threads |-> [name |-> "none", arg |-> 0]]
    /\ ret = [t \in Threads |-> NoRet]
    /\ seen = [t \in Threads |-> 0]
    /\ ncalls = [t \in Threads |-> 0]
    /\ offered = {}
    /\ forced = FALSE
    /\ trues = 0
    /\ growths = 0

Begin(t, name, arg) ==
    /\ pc[t] = "idle"
    /\ ncalls[t] < MaxCalls
    /\ name \in OpNames
    /\ pc' = [pc EXCEPT ![t] = "called"]
    /\ op' = [op EXCEPT ![t] = [name |-> name, arg |-> arg]]
    /\ ncalls' = [ncalls EXCEPT ![t] = @ + 1]
    /\ offered' = IF name \in {"update", "fetch_max"} THEN offered \cup {arg} ELSE offered
    /\ UNCHANGED <<cur, ret, seen, forced, trues, growths>>

(* The single atomic step of each operation. *)
Apply(c, name, arg) ==
    CASE name = "update"    -> [cur |-> Max(c, arg), ret |-> R(arg > c)]
      [] name = "fetch_max" -> [cur |-> Max(c, arg), ret |-> R(c)]
      [] name = "swap"      -> [cur |-> arg,         ret |-> R(c)]
      [] name = "store"     -> [cur |-> arg,         ret |-> R(0)]
      [] name = "load"      -> [cur |-> c,           ret |-> R(c)]

Effect(t) == Apply(cur, op[t].name, op[t].arg)

Lin(t) ==
    /\ pc[t] = "called"
    /\ Atomic \/ op[t].name # "update"
    /\ LET e == Effect(t) IN
        /\ cur' = e.cur
        /\ ret' = [ret EXCEPT ![t] = e.ret]
        /\ growths' = IF e.cur > cur THEN growths + 1 ELSE growths
        /\ trues' = IF op[t].name = "update" /\ e.ret.v = TRUE THEN trues + 1 ELSE trues
    /\ forced' = (forced \/ op[t].name \in {"swap", "store"})
    /\ pc' = [pc EXCEPT ![t] = "ret"]
    /\ UNCHANGED <<op, seen, ncalls, offered>>

(* Negative control: update as load; then compare-and-store. *)
MutLoad(t) ==
    /\ ~Atomic /\ pc[t] = "called" /\ op[t].name = "update"
    /\ seen' = [seen EXCEPT ![t] = cur]
    /\ pc' = [pc EXCEPT ![t] = "mid"]
    /\ UNCHANGED <<cur, op, ret, ncalls, offered, forced, trues, growths>>

MutStore(t) ==
    /\ ~Atomic /\ pc[t] = "mid"
    /\ LET grew == op[t].arg > seen[t] IN
        /\ cur' = IF grew THEN op[t].arg ELSE cur
        /\ ret' = [ret EXCEPT ![t] = R(grew)]
        /\ growths' = IF grew /\ op[t].arg > cur THEN growths + 1 ELSE growths
        /\ trues' = IF grew THEN trues + 1 ELSE trues
    /\ pc' = [pc EXCEPT ![t] = "ret"]
    /\ UNCHANGED <<op, seen, ncalls, offered, forced>>

End(t) ==
    /\ pc[t] = "ret"
    /\ pc' = [pc EXCEPT ![t] = "idle"]
    /\ ret' = [ret EXCEPT ![t] = NoRet]
    /\ UNCHANGED <<cur, op, seen, ncalls, offered, forced, trues, growths>>

Next ==
    \E t \in Threads :
        \/ \E name \in OpNames, arg \in Ids : Begin(t, name, arg)
        \/ Lin(t) \/ MutLoad(t) \/ MutStore(t) \/ End(t)

Spec == Init /\ [][Next]_vars

-----------------------------------------------------------------------------
TypeOK ==
    /\ cur \in Ids
    /\ pc \in [Threads -> {"idle", "called", "mid", "ret"}]

Quiescent == \A t \in Threads : pc[t] = "idle"
LinDone(t) == pc[t] \in {"ret", "idle"}

(* The stored id is the maximum of what was offered, as long as nobody    *)
(* used the raw swap/store.  Evaluated when every offered id has been     *)
(* applied.                                                                *)
MaxFinal ==
    (Quiescent /\ ~forced) => cur = SetMax(offered \cup {NEVER})

(* cur never exceeds what was offered, never decreases below an applied id *)
NeverAbove == ~forced => cur \in offered \cup {NEVER}

(* Exactly one caller is told TRUE per distinct growth: a reload is acted  *)
(* upon once and never lost.                                               *)
OneTruePerGrowth ==
    (~forced /\ OpNames \subseteq {"update", "load"} /\ (\A t \in Threads : pc[t] # "mid"))
        => trues = growths

(* NEVER is the least id: offering it never reports growth. *)
NeverLeast ==
    \A t \in Threads :
        (pc[t] = "ret" /\ op[t].name = "update" /\ op[t].arg = NEVER) => ret[t] = R(FALSE)

(* Monotonicity as an action property (no swap/store). *)
Monotone == [][(~forced /\ ~forced') => cur' >= cur]_vars

(* Sequential law, over the whole finite domain. *)
SeqLaw ==
    \A a \in Ids, b \in Ids :
        LET r == SeqUpdate(a, b) IN
        /\ r.val = Max(a, b)
        /\ r.res = (r.val > a)
        /\ (b = NEVER => ~r.res)
=============================================================================
