--------------------------- MODULE Gen_SharedBytes ---------------------------
(* Behaviour generator for C16: sequences of clone / send / read / drop over    *)
(* handles owned by threads, with the specification's counter after each step;  *)
(* replayed on real SharedBytes values by worker threads in lock-step.          *)
EXTENDS SharedBytes, Json
CONSTANT N
VARIABLE hist
gvars == <<owner, count, freed, frees, pc, nextH, content, reads, hist>>
GInit == Init /\ hist = <<>>
Rec(o) == hist' = Append(hist, o @@ [count |-> count', freed |-> freed', live |-> DOMAIN owner'])
GNext == /\ Len(hist) < N
         /\ \/ \E t \in Threads, h \in Live : Clone(t, h) /\ Rec([op |-> "clone", t |-> t, h |-> h, new |-> nextH])
            \/ \E t \in Threads, h \in Live : Read(t, h) /\ Rec([op |-> "read", t |-> t, h |-> h])
            \/ \E t \in Threads, h \in Live : DropDec(t, h) /\ Rec([op |-> "drop", t |-> t, h |-> h])
            \/ \E t \in Threads, h \in Live, u \in Threads : Send(t, h, u) /\ Rec([op |-> "send", t |-> t, h |-> h, to |-> u])
            \/ \E t \in Threads : Free(t) /\ Rec([op |-> "free", t |-> t])
GSpec == GInit /\ [][GNext]_gvars
Done == Len(hist) = N \/ (Live = {} /\ \A t \in Threads : pc[t] = "idle")
Emit == Done => PrintT(<<"REPLAY", ToJson(hist)>>)
=============================================================================
