SPECIFICATION Spec
CONSTANTS r1 = r1 r2 = r2
  Readers <- R2
  W = 3
  MaxWrites = 2
  MaxReads = 2
  Locked = FALSE
  AnswerAfterPass = TRUE
  StaticMode = FALSE
INVARIANTS NoTornRead
PROPERTIES 
CHECK_DEADLOCK FALSE
