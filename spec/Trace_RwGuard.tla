--------------------------- MODULE Trace_RwGuard ---------------------------
(* Trace validation for C07: reader threads log GuardAcq after acquiring a      *)
(* guard and GuardRel before releasing it (value version, reload id, whether    *)
(* every word was equal); the Write hook fires inside the entry's write lock;   *)
(* one thread calls hot_reload (Begin/End).  The driver makes the k-th rewrite  *)
(* store version k, so a value version must equal the reload id it was read at. *)
EXTENDS RwGuard, Json, IOUtils, TLCExt

Rec == ndJsonDeserialize(IOEnv.TRACE)
VARIABLE l
tvars == <<words, rid, writer, holders, wpc, wi, nw, rpc, ri, snap, acqRid, nreads, cpc, pending, served, l>>

TraceInit == Init /\ l = 1 /\ TLCSet(1, 1)
Ev(name) == l <= Len(Rec) /\ Rec[l].ev = name
Adv == l' = l + 1

TNotify == Ev("Notified") /\ Notify /\ Adv
TBegin == Ev("Begin") /\ Call /\ Adv
TEnd == Ev("End") /\ cpc = "out" /\ wpc = "idle" /\ Adv /\ UNCHANGED vars
TWrite == Ev("Write") /\ WDone /\ rid' = Rec[l].rid /\ Adv
TAcq == /\ Ev("GuardAcq")
        /\ Acquire(Rec[l].th) /\ rid = Rec[l].rid /\ Rec[l].val = Rec[l].rid
        /\ Adv
TRel == /\ Ev("GuardRel")
        /\ LET r == Rec[l].th IN
            /\ Rec[l].uniform /\ Rec[l].rid = acqRid[r] /\ Rec[l].val = acqRid[r]
            /\ Release(r)
        /\ Adv
Silent == /\ l' = l
          /\ \/ StartPass \/ WLock \/ WWord \/ Answer
             \/ \E r \in Readers : ReadWord(r)

TraceNext == TNotify \/ TBegin \/ TEnd \/ TWrite \/ TAcq \/ TRel \/ Silent
TraceSpec == TraceInit /\ [][TraceNext]_tvars

Progress == IF l > TLCGet(1) THEN TLCSet(1, l) ELSE TRUE
TraceAccepted ==
    LET n == TLCGet(1) IN
    IF n = Len(Rec) + 1 THEN TRUE
    ELSE /\ PrintT(<<"UNMATCHED", n, ToJson(Rec[n])>>)
         /\ FALSE
=============================================================================
