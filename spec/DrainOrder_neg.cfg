SPECIFICATION Spec
CONSTANTS Assets = {"a", "b"} DrainAlways = FALSE
INVARIANT NoLostNotification
CHECK_DEADLOCK FALSE
