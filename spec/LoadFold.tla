------------------------------ MODULE LoadFold ------------------------------
(***************************************************************************)
(* C03: the law of `load_from_source` (src/asset.rs:187-208) and of        *)
(* `ErrorKind::or` (src/error.rs:42-54), stated declaratively and checked  *)
(* against the interpreter of AMTypes (the operator the behaviour          *)
(* generator uses) over EVERY assignment of contents to the extensions of  *)
(* every leaf type: one initial state per (type, contents).                *)
(***************************************************************************)
EXTENDS AMTypes

VARIABLES ty, st      \* the leaf type; st[i] = content stored for its i-th extension
vars == <<ty, st>>

Contents == {None, CVal(1), CVal(2), CBad, CIo("denied"), CIo("other"), CIo("notfound")}
ExtsOf(t) == TypeInfo[t].exts
Init == /\ ty \in LeafTypes
        /\ st \in [1..Len(ExtsOf(ty)) -> Contents]
Next == UNCHANGED vars
Spec == Init /\ [][Next]_vars

TheKey == Key(ty, "a")
AllFiles == {<<"a", e>> : e \in Exts}
SrcOf == [f \in AllFiles |->
            IF \E i \in 1..Len(ExtsOf(ty)) : ExtsOf(ty)[i] = f[2]
            THEN st[CHOOSE i \in 1..Len(ExtsOf(ty)) : ExtsOf(ty)[i] = f[2]] ELSE None]
E0 == [cache |-> [k \in {TheKey} |-> None], src |-> SrcOf, dirs |-> {}, baddirs |-> [d \in {} |-> "x"],
       hasR |-> FALSE, msgs |-> <<>>, gen |-> 1, nread |-> 0, nrdir |-> 0, nldr |-> 0,
       fault |-> None, dropped |-> {}, reads |-> <<>>, fixGoi |-> FALSE, unrec |-> {}, looked |-> {}, track |-> FALSE, stale |-> {}, fhit |-> FALSE, taint |-> {}]
Result == LoadKey(E0, RecOff, TheKey, "load", [k \in {} |-> <<>>])

n == Len(ExtsOf(ty))
Good(i) == st[i] # None /\ st[i].c = "v"
(* what reading + decoding extension i alone gives *)
StatusErr(i) == IF st[i] = None THEN EIo("notfound", ExtsOf(ty)[i])
                ELSE IF st[i].c = "io" THEN EIo(st[i].kind, ExtsOf(ty)[i])
                ELSE EConv(ExtsOf(ty)[i])
Goods == {i \in 1..n : Good(i)}
MaxRank == IF n = 0 THEN 0 ELSE CHOOSE r \in 0..3 : (\E i \in 1..n : Rank(StatusErr(i)) = r) /\ (\A i \in 1..n : Rank(StatusErr(i)) <= r)
Min(S) == CHOOSE x \in S : \A y \in S : x <= y
Max(S) == CHOOSE x \in S : \A y \in S : x >= y

(* 1. Ok iff some extension is readable and decodable; it is the FIRST such *)
FirstGoodWins ==
    Goods # {} => /\ Result.ok
                  /\ Result.val = VLeaf(st[Min(Goods)].n, ExtsOf(ty)[Min(Goods)])
(* 2. otherwise default_value decides *)
DefaultDecides ==
    Goods = {} => (Result.ok <=> TypeInfo[ty].dflt) /\ (Result.ok => Result.val = VDefault)
(* 3. otherwise the error names the requested id and prefers conversion > io(other) > io(notfound) > nodefault *)
ErrorPrecedence ==
    (Goods = {} /\ ~TypeInfo[ty].dflt) =>
        /\ ~Result.ok /\ Result.err.e = "wrap" /\ Result.err.id = "a"
        /\ Rank(Result.err.inner) = MaxRank
        /\ (n = 0 => Result.err.inner = ENoDefault)
        \* which extension's error survives: the last conversion / last other-io, the first not-found
        /\ (MaxRank \in {2, 3} => Result.err.inner = StatusErr(Max({i \in 1..n : Rank(StatusErr(i)) = MaxRank})))
        /\ (MaxRank = 1 => Result.err.inner = StatusErr(Min({i \in 1..n : Rank(StatusErr(i)) = 1})))
(* 4. a failure caches nothing, a success caches exactly the key *)
CachesIffOk == (Result.E.cache[TheKey] # None) <=> Result.ok
(* 5. reads happen in extension order and stop at the first good one *)
ReadsInOrder ==
    LET k == IF Goods = {} THEN n ELSE Min(Goods) IN
    Result.E.reads = [i \in 1..k |-> FileE("a", ExtsOf(ty)[i])]

(* ErrorKind::or is a max on Rank (ties: see 3) *)
OrIsMax == \A a, b \in {ENoDefault, EIo("notfound", "x"), EIo("other", "y"), EIo("denied", "x"), EConv("x"), EConv("y")} :
              Rank(ErrOr(a, b)) = IF Rank(a) >= Rank(b) THEN Rank(a) ELSE Rank(b)
=============================================================================
