SPECIFICATION Spec
CONSTANTS t1 = t1 t2 = t2 t3 = t3
  Threads <- T2
  MaxHandles = 3
  FreeWhenOld = 0
INVARIANTS FreedWhenAllDropped
CHECK_DEADLOCK FALSE
