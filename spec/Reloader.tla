------------------------------- MODULE Reloader -------------------------------
(***************************************************************************)
(* The update order of a reload pass, at the grain of the code:            *)
(* DepsGraph::topological_sort_from / visit (dependencies.rs:123-157)      *)
(* as an explicit-stack depth-first search over reverse dependencies, on   *)
(* EVERY dependency graph over a small node set (Init ranges over them,    *)
(* cycles and self look-ups included), every set of changed entries, and   *)
(* every iteration order of the hash sets (nondeterministic choices).      *)
(*                                                                         *)
(*   FixVisitMark = FALSE : as built: a node is marked visited only AFTER  *)
(*       recursing into its reverse dependencies; on a cycle the recursion *)
(*       never ends (D2: the thread overflows its stack).                  *)
(*   FixVisitMark = TRUE  : marked on entry (repaired).                    *)
(***************************************************************************)
EXTENDS DepsGraph

CONSTANTS FileNodes,     \* source entries (records FileE/DirE)
          AssetNodes,    \* assets (records AssetD)
          FixVisitMark

Nodes == FileNodes \cup AssetNodes

VARIABLES g,        \* the dependency graph (as DepsGraph builds it)
          changed,  \* to_reload
          todo,     \* changed entries not yet used as DFS roots
          stack,    \* DFS stack: sequence of [node, rest] (rest = rdeps still to iterate)
          visited, list, phase

vars == <<g, changed, todo, stack, visited, list, phase>>

RECURSIVE Build(_, _)
(* build the graph by registering each asset with its dependency set *)
Build(depsOf, S) ==
    IF S = {} THEN NoGraph
    ELSE LET a == CHOOSE x \in S : TRUE IN GraphInsert(Build(depsOf, S \ {a}), a, depsOf[a])

Init ==
    /\ \E depsOf \in [AssetNodes -> SUBSET Nodes] : g = Build(depsOf, AssetNodes)
    /\ changed \in SUBSET FileNodes
    /\ todo = changed
    /\ stack = <<>> /\ visited = {} /\ list = <<>> /\ phase = "sort"

Push(n) == Append(stack, [node |-> n, rest |-> IF n \in DOMAIN g THEN g[n].rdeps ELSE {}])

(* for key in iter { self.visit(&mut sort_data, key) } *)
Root ==
    /\ phase = "sort" /\ stack = <<>> /\ todo # {}
    /\ \E f \in todo :
        /\ todo' = todo \ {f}
        /\ IF f \in visited \/ f \notin DOMAIN g
             THEN UNCHANGED <<stack, visited>>
             ELSE /\ stack' = Push(f)
                  /\ visited' = IF FixVisitMark THEN visited \cup {f} ELSE visited
    /\ UNCHANGED <<g, changed, list, phase>>

(* for rdep in node.rdeps.iter() { self.visit(sort_data, rdep) } *)
Descend ==
    /\ phase = "sort" /\ stack # <<>>
    /\ LET top == stack[Len(stack)] IN
        /\ top.rest # {}
        /\ \E r \in top.rest :
            LET popped == [stack EXCEPT ![Len(stack)].rest = @ \ {r}] IN
            IF r \in visited \/ r \notin DOMAIN g
            THEN stack' = popped /\ UNCHANGED visited
            ELSE /\ stack' = Append(popped, [node |-> r, rest |-> g[r].rdeps])
                 /\ visited' = IF FixVisitMark THEN visited \cup {r} ELSE visited
    /\ UNCHANGED <<g, changed, todo, list, phase>>

(* sort_data.visited.insert(key); if asset { list.push(key) } *)
Finish ==
    /\ phase = "sort" /\ stack # <<>>
    /\ LET top == stack[Len(stack)] IN
        /\ top.rest = {}
        /\ visited' = visited \cup {top.node}
        /\ list' = IF top.node.k = "asset" THEN Append(list, top.node) ELSE list
        /\ stack' = SubSeq(stack, 1, Len(stack) - 1)
    /\ UNCHANGED <<g, changed, todo, phase>>

Done ==
    /\ phase = "sort" /\ stack = <<>> /\ todo = {}
    /\ phase' = "done"
    /\ UNCHANGED <<g, changed, todo, stack, visited, list>>

Next == Root \/ Descend \/ Finish \/ Done \/ (phase = "done" /\ UNCHANGED vars)
Spec == Init /\ [][Next]_vars /\ WF_vars(Next)

Reverse(s) == [i \in 1..Len(s) |-> s[Len(s) + 1 - i]]
Order == Reverse(list)          \* TopologicalSort::into_iter is .rev()

(* C08: the sort does a bounded amount of work whatever the graph looks like *)
StackBounded == Len(stack) <= Cardinality(Nodes)
(* C06: each asset at most once per pass *)
NoDuplicate == \A i, j \in 1..Len(list) : i # j => list[i] # list[j]
(* C05/C06: the order the pass uses is a valid one *)
OrderValid == phase = "done" => OrderOK(g, changed, Order)
Terminates == <>(phase = "done")
=============================================================================
