---- MODULE Watcher6_TTrace_1790585237 ----
EXTENDS Sequences, Watcher6, TLCExt, Toolbox, Naturals, TLC

_expression ==
    LET Watcher6_TEExpression == INSTANCE Watcher6_TEExpression
    IN Watcher6_TEExpression!expression
----

_trace ==
    LET Watcher6_TETrace == INSTANCE Watcher6_TETrace
    IN Watcher6_TETrace!trace
----

_inv ==
    ~(
        TLCGet("level") = Len(_TETrace)
        /\
        val = (1)
        /\
        ppc = ("watchA")
        /\
        np = (1)
        /\
        toldG = (TRUE)
        /\
        told = (FALSE)
        /\
        gflag = (FALSE)
        /\
        nw = (1)
        /\
        wpc = ("idle")
        /\
        rid = (1)
        /\
        writesSinceG = (0)
        /\
        seenVal = (1)
        /\
        wlast = (1)
        /\
        readers = (0)
        /\
        repRid = (1)
        /\
        writesSinceW = (0)
        /\
        wlock = (FALSE)
    )
----

_init ==
    /\ val = _TETrace[1].val
    /\ rid = _TETrace[1].rid
    /\ ppc = _TETrace[1].ppc
    /\ gflag = _TETrace[1].gflag
    /\ wpc = _TETrace[1].wpc
    /\ np = _TETrace[1].np
    /\ repRid = _TETrace[1].repRid
    /\ nw = _TETrace[1].nw
    /\ told = _TETrace[1].told
    /\ readers = _TETrace[1].readers
    /\ wlock = _TETrace[1].wlock
    /\ seenVal = _TETrace[1].seenVal
    /\ writesSinceG = _TETrace[1].writesSinceG
    /\ wlast = _TETrace[1].wlast
    /\ toldG = _TETrace[1].toldG
    /\ writesSinceW = _TETrace[1].writesSinceW
----

_next ==
    /\ \E i,j \in DOMAIN _TETrace:
        /\ \/ /\ j = i + 1
              /\ i = TLCGet("level")
        /\ val  = _TETrace[i].val
        /\ val' = _TETrace[j].val
        /\ rid  = _TETrace[i].rid
        /\ rid' = _TETrace[j].rid
        /\ ppc  = _TETrace[i].ppc
        /\ ppc' = _TETrace[j].ppc
        /\ gflag  = _TETrace[i].gflag
        /\ gflag' = _TETrace[j].gflag
        /\ wpc  = _TETrace[i].wpc
        /\ wpc' = _TETrace[j].wpc
        /\ np  = _TETrace[i].np
        /\ np' = _TETrace[j].np
        /\ repRid  = _TETrace[i].repRid
        /\ repRid' = _TETrace[j].repRid
        /\ nw  = _TETrace[i].nw
        /\ nw' = _TETrace[j].nw
        /\ told  = _TETrace[i].told
        /\ told' = _TETrace[j].told
        /\ readers  = _TETrace[i].readers
        /\ readers' = _TETrace[j].readers
        /\ wlock  = _TETrace[i].wlock
        /\ wlock' = _TETrace[j].wlock
        /\ seenVal  = _TETrace[i].seenVal
        /\ seenVal' = _TETrace[j].seenVal
        /\ writesSinceG  = _TETrace[i].writesSinceG
        /\ writesSinceG' = _TETrace[j].writesSinceG
        /\ wlast  = _TETrace[i].wlast
        /\ wlast' = _TETrace[j].wlast
        /\ toldG  = _TETrace[i].toldG
        /\ toldG' = _TETrace[j].toldG
        /\ writesSinceW  = _TETrace[i].writesSinceW
        /\ writesSinceW' = _TETrace[j].writesSinceW

\* Uncomment the ASSUME below to write the states of the error trace
\* to the given file in Json format. Note that you can pass any tuple
\* to `JsonSerialize`. For example, a sub-sequence of _TETrace.
    \* ASSUME
    \*     LET J == INSTANCE Json
    \*         IN J!JsonSerialize("Watcher6_TTrace_1790585237.json", _TETrace)

=============================================================================

 Note that you can extract this module `Watcher6_TEExpression`
  to a dedicated file to reuse `expression` (the module in the 
  dedicated `Watcher6_TEExpression.tla` file takes precedence 
  over the module `Watcher6_TEExpression` below).

---- MODULE Watcher6_TEExpression ----
EXTENDS Sequences, Watcher6, TLCExt, Toolbox, Naturals, TLC

expression == 
    [
        \* To hide variables of the `Watcher6` spec from the error trace,
        \* remove the variables below.  The trace will be written in the order
        \* of the fields of this record.
        val |-> val
        ,rid |-> rid
        ,ppc |-> ppc
        ,gflag |-> gflag
        ,wpc |-> wpc
        ,np |-> np
        ,repRid |-> repRid
        ,nw |-> nw
        ,told |-> told
        ,readers |-> readers
        ,wlock |-> wlock
        ,seenVal |-> seenVal
        ,writesSinceG |-> writesSinceG
        ,wlast |-> wlast
        ,toldG |-> toldG
        ,writesSinceW |-> writesSinceW
        
        \* Put additional constant-, state-, and action-level expressions here:
        \* ,_stateNumber |-> _TEPosition
        \* ,_valUnchanged |-> val = val'
        
        \* Format the `val` variable as Json value.
        \* ,_valJson |->
        \*     LET J == INSTANCE Json
        \*     IN J!ToJson(val)
        
        \* Lastly, you may build expressions over arbitrary sets of states by
        \* leveraging the _TETrace operator.  For example, this is how to
        \* count the number of times a spec variable changed up to the current
        \* state in the trace.
        \* ,_valModCount |->
        \*     LET F[s \in DOMAIN _TETrace] ==
        \*         IF s = 1 THEN 0
        \*         ELSE IF _TETrace[s].val # _TETrace[s-1].val
        \*             THEN 1 + F[s-1] ELSE F[s-1]
        \*     IN F[_TEPosition - 1]
    ]

=============================================================================



Parsing and semantic processing can take forever if the trace below is long.
 In this case, it is advised to uncomment the module below to deserialize the
 trace from a generated binary file.

\*
\*---- MODULE Watcher6_TETrace ----
\*EXTENDS IOUtils, Watcher6, TLC
\*
\*trace == IODeserialize("Watcher6_TTrace_1790585237.bin", TRUE)
\*
\*=============================================================================
\*

---- MODULE Watcher6_TETrace ----
EXTENDS Watcher6, TLC

trace == 
    <<
    ([val |-> 0,ppc |-> "idle",np |-> 0,toldG |-> FALSE,told |-> FALSE,gflag |-> FALSE,nw |-> 0,wpc |-> "idle",rid |-> 0,writesSinceG |-> 0,seenVal |-> 0,wlast |-> 0,readers |-> 0,repRid |-> 0,writesSinceW |-> 0,wlock |-> FALSE]),
    ([val |-> 0,ppc |-> "idle",np |-> 0,toldG |-> FALSE,told |-> FALSE,gflag |-> FALSE,nw |-> 0,wpc |-> "locked",rid |-> 0,writesSinceG |-> 0,seenVal |-> 0,wlast |-> 0,readers |-> 0,repRid |-> 0,writesSinceW |-> 0,wlock |-> TRUE]),
    ([val |-> 0,ppc |-> "watchA",np |-> 0,toldG |-> FALSE,told |-> FALSE,gflag |-> FALSE,nw |-> 0,wpc |-> "locked",rid |-> 0,writesSinceG |-> 0,seenVal |-> 0,wlast |-> 0,readers |-> 0,repRid |-> 0,writesSinceW |-> 0,wlock |-> TRUE]),
    ([val |-> 1,ppc |-> "watchA",np |-> 0,toldG |-> FALSE,told |-> FALSE,gflag |-> TRUE,nw |-> 0,wpc |-> "swapped",rid |-> 1,writesSinceG |-> 1,seenVal |-> 0,wlast |-> 0,readers |-> 0,repRid |-> 0,writesSinceW |-> 1,wlock |-> TRUE]),
    ([val |-> 1,ppc |-> "watchA",np |-> 0,toldG |-> FALSE,told |-> FALSE,gflag |-> TRUE,nw |-> 1,wpc |-> "idle",rid |-> 1,writesSinceG |-> 1,seenVal |-> 0,wlast |-> 0,readers |-> 0,repRid |-> 0,writesSinceW |-> 1,wlock |-> FALSE]),
    ([val |-> 1,ppc |-> "watched",np |-> 0,toldG |-> FALSE,told |-> FALSE,gflag |-> TRUE,nw |-> 1,wpc |-> "idle",rid |-> 1,writesSinceG |-> 1,seenVal |-> 0,wlast |-> 1,readers |-> 0,repRid |-> 0,writesSinceW |-> 1,wlock |-> FALSE]),
    ([val |-> 1,ppc |-> "read1",np |-> 0,toldG |-> FALSE,told |-> FALSE,gflag |-> TRUE,nw |-> 1,wpc |-> "idle",rid |-> 1,writesSinceG |-> 1,seenVal |-> 1,wlast |-> 1,readers |-> 0,repRid |-> 0,writesSinceW |-> 1,wlock |-> FALSE]),
    ([val |-> 1,ppc |-> "asked",np |-> 0,toldG |-> TRUE,told |-> FALSE,gflag |-> FALSE,nw |-> 1,wpc |-> "idle",rid |-> 1,writesSinceG |-> 0,seenVal |-> 1,wlast |-> 1,readers |-> 0,repRid |-> 1,writesSinceW |-> 1,wlock |-> FALSE]),
    ([val |-> 1,ppc |-> "read2",np |-> 0,toldG |-> TRUE,told |-> FALSE,gflag |-> FALSE,nw |-> 1,wpc |-> "idle",rid |-> 1,writesSinceG |-> 0,seenVal |-> 1,wlast |-> 1,readers |-> 0,repRid |-> 1,writesSinceW |-> 1,wlock |-> FALSE]),
    ([val |-> 1,ppc |-> "idle",np |-> 1,toldG |-> TRUE,told |-> FALSE,gflag |-> FALSE,nw |-> 1,wpc |-> "idle",rid |-> 1,writesSinceG |-> 0,seenVal |-> 1,wlast |-> 1,readers |-> 0,repRid |-> 1,writesSinceW |-> 1,wlock |-> FALSE]),
    ([val |-> 1,ppc |-> "watchA",np |-> 1,toldG |-> TRUE,told |-> FALSE,gflag |-> FALSE,nw |-> 1,wpc |-> "idle",rid |-> 1,writesSinceG |-> 0,seenVal |-> 1,wlast |-> 1,readers |-> 0,repRid |-> 1,writesSinceW |-> 0,wlock |-> FALSE])
    >>
----


=============================================================================

---- CONFIG Watcher6_TTrace_1790585237 ----
CONSTANTS
    MaxWrites = 3
    MaxPolls = 3
    TwoLoads = TRUE
    BumpInsideLock = TRUE

INVARIANT
    _inv

CHECK_DEADLOCK
    \* CHECK_DEADLOCK off because of PROPERTY or INVARIANT above.
    FALSE

INIT
    _init

NEXT
    _next

CONSTANT
    _TETrace <- _trace

ALIAS
    _expression
=============================================================================
\* Generated on Mon Sep 28 08:47:18 UTC 2026