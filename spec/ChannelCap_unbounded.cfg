SPECIFICATION Spec
CONSTANTS Cap = 0 MaxNew = 4
INVARIANT NeverBlocked
PROPERTY EveryCallReturns
CONSTRAINT Bound
CHECK_DEADLOCK FALSE
