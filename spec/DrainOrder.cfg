SPECIFICATION Spec
CONSTANTS Assets = {"a", "b", "c"} DrainAlways = TRUE
INVARIANT NoLostNotification
CHECK_DEADLOCK FALSE
