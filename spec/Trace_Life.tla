----------------------------- MODULE Trace_Life -----------------------------
(* Trace validation for C15: the hook events of ONE hot-reloading thread        *)
(* (Select, Msg*, Events, Exit) and the sends / drops logged before they happen *)
(* must be a behaviour of Lifecycle.tla: every wake-up of the select has a      *)
(* cause, every loop iteration consumes something, the thread exits exactly     *)
(* when its cache is gone.                                                      *)
EXTENDS Lifecycle, Json, IOUtils, TLCExt

Rec == ndJsonDeserialize(IOEnv.TRACE)
VARIABLE l
tvars == <<cmsgs, cacheAlive, waiting, events, senderAlive, evSelected, rpc, ready, idle, consumed, sentM, sentE, calls, l>>

TraceInit == Init /\ l = 1 /\ TLCSet(1, 1)
Ev(name) == l <= Len(Rec) /\ Rec[l].ev = name
Adv == l' = l + 1

KindOf(ev) == CASE ev \in {"SendAdd", "MsgAddAsset"} -> "add"
                [] ev \in {"SendClear", "MsgClear"} -> "clear"
                [] ev \in {"SendStatic", "MsgStatic"} -> "static"
                [] OTHER -> "ptr"

TSend    == l <= Len(Rec) /\ Rec[l].ev \in {"SendAdd", "SendClear", "SendStatic"} /\ SendMsg(KindOf(Rec[l].ev)) /\ Adv
TRequest == Ev("Request") /\ HotReload /\ Adv
TEvent   == Ev("Send") /\ SendEvent /\ Adv
TDropC   == Ev("DropCache") /\ DropCache /\ Adv
TDropS   == Ev("DropSender") /\ DropSender /\ Adv
TSelect  == Ev("Select") /\ Select /\ ready' = Rec[l].ready /\ Adv
TMsg     == l <= Len(Rec) /\ Rec[l].ev \in {"MsgAddAsset", "MsgClear", "MsgStatic", "MsgPtr"} /\ DrainKind(KindOf(Rec[l].ev)) /\ Adv
TEvents  == Ev("Events") /\ rpc = "event" /\ events > 0 /\ EventStep /\ Adv
TExit    == Ev("Exit") /\ (DrainEnd \/ EventStep) /\ rpc' = "exited" /\ Adv
Silent   == /\ l' = l
            /\ \/ (DrainEnd /\ rpc' # "exited")
               \/ (rpc = "event" /\ ~(ready = 1 /\ evSelected /\ events > 0) /\ EventStep /\ rpc' # "exited")

TReset   == /\ Ev("Reset") /\ Adv
            /\ cmsgs' = NoMsgs /\ cacheAlive' = TRUE /\ waiting' = 0 /\ events' = 0 /\ senderAlive' = TRUE
            /\ evSelected' = TRUE /\ rpc' = "select" /\ ready' = 0 /\ idle' = 0 /\ consumed' = FALSE
            /\ sentM' = 0 /\ sentE' = 0 /\ calls' = 0

TraceNext == TReset \/ TSend \/ TRequest \/ TEvent \/ TDropC \/ TDropS \/ TSelect \/ TMsg \/ TEvents \/ TExit \/ Silent
TraceSpec == TraceInit /\ [][TraceNext]_tvars

Progress == IF l > TLCGet(1) THEN TLCSet(1, l) ELSE TRUE
TraceAccepted ==
    LET n == TLCGet(1) IN
    IF n = Len(Rec) + 1 THEN TRUE
    ELSE /\ PrintT(<<"UNMATCHED", n, ToJson(Rec[n])>>)
         /\ FALSE
(* after the whole trace: the cache was dropped, so the thread must have exited *)
EndsExited == ((l = Len(Rec) + 1 \/ (l <= Len(Rec) /\ Rec[l].ev = "Reset")) /\ ~cacheAlive /\ ~ENABLED Silent) => rpc = "exited"
=============================================================================
