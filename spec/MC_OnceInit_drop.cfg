SPECIFICATION Spec
CONSTANTS t1 = t1 t2 = t2 t3 = t3
  Threads <- T3
  MaxAttempts = 4
  NeedsDrop = TRUE
  PublishLate = FALSE
  SeedDropInside = FALSE
INVARIANTS InitOnce SeedKept ExactlyOneArm DropOnce NoLeak RefOnlyWhenDone PublishedWhole
CHECK_DEADLOCK FALSE
