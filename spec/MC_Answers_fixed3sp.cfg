SPECIFICATION Spec
CONSTANTS
  c1 = c1 c2 = c2 c3 = c3 c4 = c4
  Callers <- C3
  MaxCalls = 1
  FixAnswerNotify = TRUE
  Spurious = TRUE
INVARIANTS TypeOK MutexOK OwnAnswer SlotForWaiter NoLostWakeup
CHECK_DEADLOCK FALSE
