#!/usr/bin/env python3
"""Scratch laboratories: private copies of /repo (a git worktree) and of /verif under /tmp/lab-<k>, so that
seeded changes and mutants can be tried in parallel WITHOUT touching /repo.  Exploration only: the verdicts
recorded in seeded/*/meta.json and every registered check run against /repo itself.

  lab.py make <k>                      create / refresh lab k
  lab.py seeds <k> <seed-id> ...       apply each stored seed in lab k, run its property's quick check there, undo
  lab.py mutants <k> <id> ...          the same for mutants of lib/mutate.py (checks of the properties anchored in the file)
  lab.py rm <k>
Results: /verif/work/lab/<name>.json
"""
import json, os, re, subprocess, sys, time
ROOT = os.path.dirname(os.path.dirname(os.path.abspath(__file__)))
RES = os.path.join(ROOT, "work", "lab")


def sh(cmd, cwd="/", timeout=3600, env=None):
    e = dict(os.environ)
    e["CARGO_NET_OFFLINE"] = "true"
    if env:
        e.update(env)
    try:
        p = subprocess.run(cmd, shell=True, cwd=cwd, stdout=subprocess.PIPE, stderr=subprocess.STDOUT, text=True, timeout=timeout, env=e)
        return p.returncode, p.stdout
    except subprocess.TimeoutExpired as ex:
        o = ex.stdout
        return 124, (o.decode("utf-8", "replace") if isinstance(o, bytes) else (o or ""))


def lab_dir(k):
    return f"/tmp/lab-{k}"


def make(k):
    d = lab_dir(k)
    repo, verif = f"{d}/repo", f"{d}/verif"
    os.makedirs(d, exist_ok=True)
    if not os.path.exists(repo):
        rc, out = sh(f"git -C /repo worktree add --detach {repo} HEAD")
        if rc != 0:
            raise SystemExit(out)
    else:
        sh("git checkout -- . && git checkout --detach $(git -C /repo rev-parse HEAD)", repo)
    os.makedirs(verif, exist_ok=True)
    sh(f"rsync -a --delete --exclude .git --exclude 'work/' --exclude 'harness/target*' --exclude seeded --exclude evidence {ROOT}/ {verif}/")
    os.makedirs(f"{verif}/work", exist_ok=True)
    os.makedirs(f"{verif}/evidence", exist_ok=True)
    for f in ("harness/Cargo.toml", "harness/build.rs", "lib/vlib.py"):
        p = os.path.join(verif, f)
        s = open(p).read().replace('"/repo"', f'"{repo}"').replace("/repo/src", f"{repo}/src")
        open(p, "w").write(s)
    print("lab", k, "ready")


def run_checks(k, patch_text, checks, name):
    d = lab_dir(k)
    repo, verif = f"{d}/repo", f"{d}/verif"
    os.makedirs(RES, exist_ok=True)
    pf = f"{d}/cur.diff"
    open(pf, "w").write(patch_text)
    sh("git checkout -- .", repo)
    rc, out = sh(f"git apply {pf}", repo)
    res = dict(name=name, lab=k, checks={})
    if rc != 0:
        res["error"] = "patch does not apply: " + out[-300:]
    else:
        try:
            for c in checks:
                t0 = time.time()
                rc, out = sh(f"timeout 3000 ./check {c} quick 2>&1 | grep -E '^(VIOLATION|TOOL-ERROR|KNOWN|  C[0-9]|\\[C[0-9])' | head -60", verif, timeout=3100)
                viol = [l for l in out.splitlines() if l.startswith("VIOLATION")]
                detail = [l for l in out.splitlines() if l.startswith("  C")]
                tool = [l for l in out.splitlines() if l.startswith("TOOL-ERROR")]
                res["checks"][c] = dict(violations=len(viol), first=(detail[0][:300] if detail else (viol[0][:200] if viol else "")),
                                        tool_error=(tool[0][:300] if tool else ""), secs=round(time.time() - t0))
                if viol:
                    break
        finally:
            sh("git checkout -- .", repo)
    verdict = "detected" if any(r["violations"] for r in res["checks"].values()) else ("tool-error" if any(r["tool_error"] for r in res["checks"].values()) else "missed")
    res["verdict"] = verdict
    json.dump(res, open(os.path.join(RES, f"{name}.json"), "w"), indent=1)
    print(name, verdict, {c: (r["violations"], r["secs"], r["first"][:120]) for c, r in res["checks"].items()}, flush=True)


def seeds(k, ids):
    for s in ids:
        d = os.path.join(ROOT, "seeded", s)
        meta = json.load(open(os.path.join(d, "meta.json")))
        run_checks(k, open(os.path.join(d, "patch.diff")).read(), [meta["breaks"][:3]], s)


def mutants(k, ids):
    anc = {}
    for l in open(os.path.join(ROOT, "properties.jsonl")):
        p = json.loads(l)
        for f in p["anchors"]["files"]:
            anc.setdefault(f, []).append(p["id"])
    # fastest checks first
    speed = {"C17": 1, "C16": 2, "C15": 3, "C18": 4, "C12": 5, "C11": 6, "C04": 7, "C03": 8, "C01": 9, "C13": 10, "C14": 11, "C10": 12,
             "C08": 13, "C07": 14, "C09": 15, "C02": 16, "C06": 17, "C05": 18}
    for i in ids:
        m = json.load(open(os.path.join(ROOT, "work", "mutants", f"{i}.json")))
        checks = sorted(anc.get(m["file"], []), key=lambda c: speed.get(c, 99))
        run_checks(k, m["diff"], checks, f"mut-{i}")
        r = json.load(open(os.path.join(RES, f"mut-{i}.json")))
        m["status"] = r["verdict"]
        m["checks"] = r["checks"]
        json.dump(m, open(os.path.join(ROOT, "work", "mutants", f"{i}.json"), "w"), indent=1)


if __name__ == "__main__":
    cmd, k = sys.argv[1], sys.argv[2]
    if cmd == "make":
        make(k)
    elif cmd == "seeds":
        seeds(k, sys.argv[3:])
    elif cmd == "mutants":
        mutants(k, sys.argv[3:])
    elif cmd == "rm":
        sh(f"git -C /repo worktree remove --force {lab_dir(k)}/repo; rm -rf {lab_dir(k)}; git -C /repo worktree prune")
