#!/usr/bin/env python3
"""Seeded-change bookkeeping.

  seedtool.py confirm <worktree> <m1|m2> <PROP>   confirm a sub-agent's change in its scratch worktree and, if confirmed,
                                                   store it as /verif/seeded/<PROP>-<m>/ (patch.diff, demo.rs, README.md, meta.json)
  seedtool.py detect <seed-id> [check ...]         apply the stored patch to /repo, run the given checks (default: the property's), undo,
                                                   and record which checks reported it in meta.json
"""
import json, os, re, shutil, subprocess, sys, time
ROOT = os.path.dirname(os.path.dirname(os.path.abspath(__file__)))
SEEDED = os.path.join(ROOT, "seeded")


def sh(cmd, cwd, timeout=1500, env=None):
    e = dict(os.environ)
    if env:
        e.update(env)
    try:
        p = subprocess.run(cmd, shell=True, cwd=cwd, stdout=subprocess.PIPE, stderr=subprocess.STDOUT, text=True, timeout=timeout, env=e)
        return p.returncode, p.stdout
    except subprocess.TimeoutExpired as ex:
        return 124, (ex.stdout or b"").decode("utf-8", "replace") if isinstance(ex.stdout, bytes) else (ex.stdout or "")


def demo_cmd(demo_path, wt):
    head = open(demo_path).read().splitlines()[:12]
    name = None
    cmd = None
    for l in head:
        m = re.search(r"tests/([A-Za-z0-9_]+)\.rs", l)
        if m and not name:
            name = m.group(1)
        m = re.search(r"(cargo test .*)$", l)
        if m and not cmd:
            cmd = re.split(r"\s{2,}|\s\(", m.group(1).strip())[0].strip()
    if not name:
        raise SystemExit("cannot find the demo's test name")
    if not cmd:
        cmd = f"cargo test --offline --features hot-reloading --test {name}"
    if "--offline" not in cmd:
        cmd = cmd.replace("cargo test", "cargo test --offline")
    return name, f"CARGO_TARGET_DIR={wt}/target timeout 600 {cmd}"


def confirm(wt, m, prop, prefix=""):
    src = os.path.join(wt, "_out", m)
    patch = os.path.join(src, "patch.diff")
    demo = os.path.join(src, "demo.rs")
    name, cmd = demo_cmd(demo, wt)
    if prefix:
        # e.g. "taskset -c 0-2": a race that only shows when threads share few cores
        cmd = cmd.replace("timeout 600 cargo", f"timeout 600 {prefix} cargo")
    log = {}
    sh("git checkout -- src && rm -rf tests", wt)
    os.makedirs(os.path.join(wt, "tests"), exist_ok=True)
    shutil.copy(demo, os.path.join(wt, "tests", name + ".rs"))
    rc, out = sh(cmd, wt)
    log["demo_without_change"] = dict(rc=rc, tail=out[-600:])
    ok_without = rc == 0
    rc, out = sh(f"git apply {patch}", wt)
    if rc != 0:
        raise SystemExit(f"patch does not apply: {out}")
    rc, out = sh(f"CARGO_TARGET_DIR={wt}/target cargo build --offline && CARGO_TARGET_DIR={wt}/target cargo build --offline --features hot-reloading,tar,zip,zip-deflate,embedded,utils", wt)
    log["build_with_change"] = dict(rc=rc, tail=out[-300:])
    builds = rc == 0
    rc, out = sh(f"CARGO_TARGET_DIR={wt}/target cargo test --workspace --no-fail-fast --offline --lib --bins", wt)
    passed = re.findall(r"test result: ok\. (\d+) passed; 0 failed", out)
    log["existing_tests_with_change"] = dict(rc=rc, passed=passed, tail=out[-300:])
    tests_ok = rc == 0 and "30" in passed
    rc, out = sh(cmd, wt)
    log["demo_with_change"] = dict(rc=rc, tail=out[-800:])
    fails_with = rc != 0
    sh("git checkout -- src && rm -rf tests", wt)
    verdict = ok_without and builds and tests_ok and fails_with
    print(json.dumps(dict(seed=f"{prop}-{m}", demo_passes_without=ok_without, builds=builds, existing_tests_pass=tests_ok, demo_fails_with=fails_with, confirmed=verdict)))
    if verdict:
        dst = os.path.join(SEEDED, f"{prop}-{m}")
        os.makedirs(dst, exist_ok=True)
        for f in ("patch.diff", "demo.rs", "README.md"):
            shutil.copy(os.path.join(src, f), os.path.join(dst, f))
        meta = dict(id=f"{prop}-{m}", breaks=prop, origin="independent sub-agent given only the property text and a scratch worktree",
                    needs=first_para(os.path.join(src, "README.md")), demo_command=cmd.replace(wt, "<worktree>"),
                    confirmed=dict(demo_passes_without_change=True, builds_with_change=True, existing_30_tests_pass_with_change=True, demo_fails_with_change=True),
                    confirmation_log=log, detected_by={})
        json.dump(meta, open(os.path.join(dst, "meta.json"), "w"), indent=1)
    return verdict


def first_para(readme):
    t = open(readme).read()
    m = re.search(r"(?is)(needs|manifest)[^\n]*\n(.{0,900})", t)
    return (m.group(0) if m else t[:900]).strip()


def detect(seed, checks):
    d = os.path.join(SEEDED, seed)
    meta = json.load(open(os.path.join(d, "meta.json")))
    checks = checks or [meta["breaks"]]
    rc, out = sh("git status --short -- src Cargo.toml", "/repo")
    if out.strip():
        raise SystemExit("/repo has uncommitted changes")
    rc, out = sh(f"git apply {os.path.join(d, 'patch.diff')}", "/repo")
    if rc != 0:
        raise SystemExit(f"patch does not apply to /repo: {out}")
    try:
        for c in checks:
            t0 = time.time()
            rc, out = sh(f"./check {c} quick", ROOT, timeout=2400)
            lines = [l for l in out.splitlines() if l.startswith("VIOLATION") or l.startswith("  ") or l.startswith("TOOL-ERROR") or l.startswith("KNOWN-FINDING")]
            meta["detected_by"][c] = dict(exit=rc, detected=(rc == 1), wall_s=round(time.time() - t0), lines=lines[:6])
            print(seed, c, "exit", rc, "DETECTED" if rc == 1 else ("TOOL-ERROR" if rc == 2 else "missed"), lines[:3])
    finally:
        sh("git checkout -- .", "/repo")
    json.dump(meta, open(os.path.join(d, "meta.json"), "w"), indent=1)


if __name__ == "__main__":
    if sys.argv[1] == "confirm":
        confirm(sys.argv[2], sys.argv[3], sys.argv[4], " ".join(sys.argv[5:]))
    elif sys.argv[1] == "detect":
        detect(sys.argv[2], sys.argv[3:])
