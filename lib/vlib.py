"""Shared machinery for /verif/check: TLC runner, harness build, evidence, findings.

Exit codes of a check: 0 held, 1 violation (with VIOLATION line), 2 tool error.
"""
import hashlib
import json
import os
import re
import shutil
import subprocess
import sys
import time

ROOT = os.path.dirname(os.path.dirname(os.path.abspath(__file__)))
SPEC = os.path.join(ROOT, "spec")
WORK = os.path.join(ROOT, "work")
HARNESS = os.path.join(ROOT, "harness")
EVID = os.path.join(ROOT, "evidence")
REPLAYS = os.path.join(WORK, "replays")
FINDINGS_FILE = os.path.join(ROOT, "known_findings.json")
REPO = "/repo"

NCPU = os.cpu_count() or 4


class ToolError(Exception):
    pass


def log(*a):
    print(*a, flush=True)


def ensure_dirs():
    for d in (WORK, EVID, REPLAYS):
        os.makedirs(d, exist_ok=True)


# --------------------------------------------------------------------------
# harness build
# --------------------------------------------------------------------------
_built = {}


def hooks_present():
    return os.path.exists(os.path.join(REPO, "src", "verif.rs"))


class BuildFailed(ToolError):
    """The harness does not compile against the crate as it is (for the variant that holds `embed!`
    this is an observation about the macro, see checks/c04.py)."""


def build_harness(features=()):
    """cargo build the harness against /repo's working tree (hooks on)."""
    key = tuple(sorted(features))
    if key in _built:
        return _built[key]
    ensure_dirs()
    lock = os.path.join(HARNESS, "Cargo.lock")
    if not os.path.exists(lock):
        shutil.copy(os.path.join(REPO, "Cargo.lock"), lock)
    tdir = "target" if not key else "target-" + "-".join(key)
    cmd = ["cargo", "build", "--offline", "--bins", "--target-dir", tdir]
    real = [f for f in key if f != "std-hasher"]
    if "std-hasher" in key:
        cmd += ["--no-default-features"]      # the crate's std RandomState instead of ahash
    if real:
        cmd += ["--features", ",".join(real)]
    env = dict(os.environ)
    env["CARGO_NET_OFFLINE"] = "true"
    t0 = time.time()
    p = subprocess.run(cmd, cwd=HARNESS, env=env, stdout=subprocess.PIPE,
                       stderr=subprocess.STDOUT, text=True)
    if p.returncode != 0:
        tail = "\n".join(l for l in p.stdout.splitlines() if "warning" not in l)[-6000:]
        raise BuildFailed("harness build failed:\n" + tail)
    bindir = os.path.join(HARNESS, tdir, "debug")
    log(f"[build] harness {key or '(default)'} ok in {time.time()-t0:.1f}s")
    _built[key] = bindir
    return bindir


class Died(Exception):
    """The harness process died (signal / panic / abort) while running the code under test, without a
    report: that is an observation about the code, reported as a violation by the driver."""
    def __init__(self, why, p):
        super().__init__(why)
        self.why = why
        self.stdout = p.stdout[-1500:] if p.stdout else ""
        self.stderr = p.stderr[-3000:] if p.stderr else ""


def died(p):
    """A harness process killed by a signal or by a panic of the code under test: data, not a tool error."""
    if p.returncode < 0:
        return f"killed by signal {-p.returncode}"
    if p.returncode == 101:
        tail = [l for l in p.stderr.splitlines() if "panicked" in l][-2:]
        return "panicked: " + " | ".join(tail)[:300]
    if p.returncode == 134:
        return "aborted"
    return None


def run_bin(name, args, *, features=(), timeout=600, env=None, stdin=None, cwd=None):
    """Run a harness binary; returns CompletedProcess (stdout text)."""
    bindir = build_harness(features)
    e = dict(os.environ)
    if env:
        e.update({k: str(v) for k, v in env.items()})
    try:
        return subprocess.run([os.path.join(bindir, name)] + [str(a) for a in args],
                              stdout=subprocess.PIPE, stderr=subprocess.PIPE, text=True,
                              timeout=timeout, env=e, input=stdin, cwd=cwd or WORK)
    except subprocess.TimeoutExpired as ex:
        raise ToolError(f"{name} {args} timed out after {timeout}s") from ex


# --------------------------------------------------------------------------
# TLC
# --------------------------------------------------------------------------
class TlcResult:
    def __init__(self):
        self.rc = None
        self.out = ""
        self.generated = 0
        self.distinct = 0
        self.depth = 0
        self.violated = None      # name of violated invariant/property, or "deadlock"/"assert"
        self.error = None         # tool-level error text
        self.prints = []          # PrintT payload lines (raw text)
        self.coverage = {}        # action name -> (distinct, total)
        self.wall = 0.0
        self.trace = []           # counterexample states (text blocks)

    @property
    def ok(self):
        return self.error is None and self.violated is None

    def summary(self):
        return dict(states=self.distinct, transitions=self.generated, depth=self.depth,
                    violated=self.violated, wall_s=round(self.wall, 2))


_STATS = re.compile(r"(\d+) states generated, (\d+) distinct states found")
_DEPTH = re.compile(r"depth of the complete state graph search is (\d+)")
_INV = re.compile(r"Error: Invariant (\S+) is violated")
_PROP = re.compile(r"Error: (?:Action|Temporal) propert(?:y|ies) (\S+)?.*violated", re.I)
_COV = re.compile(r"^<(\w+) line \d+, col \d+ to line \d+, col \d+ of module (\w+)>: (\d+):(\d+)")


def tlc(module, cfg, *, workers=8, simulate=None, depth=None, seed=None, env=None,
        deque=False, xss=False, xmx="8g", timeout=900, coverage=False, name=None,
        extra=(), keep_out=False):
    """Run TLC on spec/<module>.tla with spec/<cfg>. Returns TlcResult."""
    ensure_dirs()
    name = name or (cfg.replace(".cfg", ""))
    meta = os.path.join(WORK, "tlc", f"{name}-{os.getpid()}")
    shutil.rmtree(meta, ignore_errors=True)
    os.makedirs(meta, exist_ok=True)
    # TLC / SANY leave tlc-* and SANY* directories in java.io.tmpdir: keep them inside the run's own directory
    jopts = [f"-Xmx{xmx}", f"-Djava.io.tmpdir={meta}"]
    if xss:
        jopts.append("-Xss1g")
    if deque:
        jopts.append("-Dtlc2.tool.queue.IStateQueue=StateDeque")
    e = dict(os.environ)
    e["JAVA_TOOL_OPTIONS"] = " ".join(jopts)
    if env:
        e.update({k: str(v) for k, v in env.items()})
    cmd = ["tlc", "-workers", str(workers), "-metadir", meta, "-noGenerateSpecTE",
           "-config", cfg]
    if coverage:
        cmd += ["-coverage", "1"]
    if simulate is not None:
        cmd += ["-simulate", f"num={simulate}"]
    if depth is not None:
        cmd += ["-depth", str(depth)]
    if seed is not None:
        cmd += ["-seed", str(seed)]
    cmd += list(extra)
    cmd.append(module + ".tla")
    r = TlcResult()
    t0 = time.time()
    try:
        p = subprocess.run(cmd, cwd=SPEC, env=e, stdout=subprocess.PIPE,
                           stderr=subprocess.STDOUT, text=True, timeout=timeout)
        r.rc = p.returncode
        r.out = p.stdout
    except subprocess.TimeoutExpired as ex:
        r.out = (ex.stdout or b"").decode("utf-8", "replace") if isinstance(ex.stdout, bytes) else (ex.stdout or "")
        r.error = f"TLC timeout after {timeout}s"
    r.wall = time.time() - t0
    shutil.rmtree(meta, ignore_errors=True)
    for line in r.out.splitlines():
        m = _STATS.search(line)
        if m:
            r.generated, r.distinct = int(m.group(1)), int(m.group(2))
        m = re.search(r"The number of states generated: (\d+)", line)
        if m:
            r.generated = r.distinct = int(m.group(1))
        m = _DEPTH.search(line)
        if m:
            r.depth = int(m.group(1))
        m = _INV.search(line)
        if m and not r.violated:
            r.violated = m.group(1)
        if ("is violated" in line or "was violated" in line) and not r.violated:
            m2 = re.search(r"propert\w+ (\S+) (?:is|was) violated", line)
            r.violated = m2.group(1) if m2 else "property"
        if "Temporal properties were violated" in line and not r.violated:
            r.violated = "temporal"
        if "Deadlock reached" in line and not r.violated:
            r.violated = "deadlock"
        if line.startswith("Error: Postcondition") and not r.violated:
            r.violated = "postcondition"
        if line.startswith('<<"') or line.startswith("<<\""):
            r.prints.append(line)
        m = _COV.match(line)
        if m:
            r.coverage[m.group(1)] = (int(m.group(3)), int(m.group(4)))
    if r.error is None and r.violated is None:
        if "Parse Error" in r.out or "Parsing or semantic analysis failed" in r.out:
            r.error = "TLA+ parse/semantic error"
        elif re.search(r"^Error: ", r.out, re.M):
            m = re.search(r"^Error: (.*)$", r.out, re.M)
            r.error = "TLC error: " + m.group(1)
        elif r.rc not in (0,):
            r.error = f"TLC exit {r.rc}"
    if r.violated:
        # keep the counterexample text
        idx = r.out.find("Error:")
        r.trace = r.out[idx:idx + 20000]
    if r.error:
        log(f"[tlc] {name}: TOOL ERROR {r.error}")
        log(r.out[-3000:])
    else:
        log(f"[tlc] {name}: {r.distinct} distinct / {r.generated} generated, depth {r.depth}, "
            f"{'VIOLATED ' + str(r.violated) if r.violated else 'ok'} ({r.wall:.1f}s)")
    return r


def tlc_expect_ok(module, cfg, **kw):
    r = tlc(module, cfg, **kw)
    if r.error:
        raise ToolError(f"{cfg}: {r.error}")
    return r


def tlc_expect_violation(module, cfg, expected=None, **kw):
    """Negative control: the model must be able to see the defect."""
    r = tlc(module, cfg, **kw)
    if r.error:
        raise ToolError(f"{cfg}: {r.error}")
    if not r.violated:
        raise ToolError(f"negative control {cfg} found no violation: the model cannot see the defect")
    if expected and r.violated not in (expected if isinstance(expected, (list, tuple, set)) else [expected]):
        raise ToolError(f"negative control {cfg} violated {r.violated}, expected {expected}")
    return r


def parse_prints(res, tag, limit=None):
    """PrintT(<<tag, json-string>>) lines -> list of decoded JSON values.
    With `limit`, an evenly spaced sample of that many lines is decoded (millions of generated
    behaviours are never all held as Python objects)."""
    pre = f'<<"{tag}", "'
    idx = [i for i, line in enumerate(res.prints) if line.startswith(pre) and line.endswith('">>')]
    if limit and len(idx) > limit:
        step = len(idx) / limit
        idx = [idx[int(i * step)] for i in range(limit)]
    out = []
    for i in idx:
        s = res.prints[i][len(pre):-3]
        # TLC prints the TLA+ string with escaped quotes/backslashes
        s = s.replace('\\"', '"').replace("\\\\", "\\")
        try:
            out.append(json.loads(s))
        except Exception as ex:  # pragma: no cover
            raise ToolError(f"cannot decode generated behaviour: {ex}: {s[:200]}")
    return out


def trace_check(module, cfg, trace_path, *, name=None, timeout=600, env=None, xmx="4g"):
    """Validate an ndjson trace against a trace spec.  Returns (verdict, TlcResult, detail).

    verdict: "accepted" | "invariant" (a property invariant failed on the reconstructed
    state: VIOLATION) | "rejected" (no spec behaviour explains the trace; detail has the
    first unmatched line) | "error" (tool).
    """
    e = {"TRACE": trace_path}
    if env:
        e.update(env)
    r = tlc(module, cfg, workers=1, env=e, deque=True, xss=True, xmx=xmx, timeout=timeout,
            name=name or ("trace-" + cfg.replace(".cfg", "")))
    if r.error:
        return "error", r, r.error
    detail = ""
    for line in r.prints:
        if line.startswith('<<"UNMATCHED"'):
            detail = line
    if r.violated and r.violated != "postcondition":
        return "invariant", r, str(r.violated)
    if r.violated == "postcondition":
        return "rejected", r, detail or "trace not accepted"
    return "accepted", r, ""


# --------------------------------------------------------------------------
# findings
# --------------------------------------------------------------------------
def load_findings():
    if not os.path.exists(FINDINGS_FILE):
        return []
    with open(FINDINGS_FILE) as f:
        return json.load(f).get("findings", [])


def known_keys(prop):
    return {f["key"]: f for f in load_findings()
            if f.get("property") == prop and f.get("status") == "known"}


# --------------------------------------------------------------------------
# check context: collects results, prints verdict lines, writes evidence
# --------------------------------------------------------------------------
class Ctx:
    def __init__(self, prop, tier, seed, level):
        self.prop = prop
        self.tier = tier
        self.seed = seed
        self.level = level
        self.t0 = time.time()
        self.violations = []      # (key, what, replay)
        self.known_hit = {}       # key -> what
        self.cov = dict(states=0, transitions=0, traces_validated_against_impl=0,
                        evaluations=0, distinct_nontrivial=0, samples=[], rule="",
                        tlc_runs=[], negative_controls=[], binding_demos=[])
        self.assumptions = []
        self._distinct = set()
        ensure_dirs()

    # -- coverage bookkeeping
    def add_tlc(self, label, r, negative=False):
        entry = dict(config=label, **r.summary())
        if r.coverage:
            entry["actions_never_taken"] = sorted(a for a, (d, t) in r.coverage.items() if t == 0)[:20]
            entry["actions_covered"] = sum(1 for a, (d, t) in r.coverage.items() if t > 0)
        if negative:
            self.cov["negative_controls"].append(entry)
        else:
            self.cov["tlc_runs"].append(entry)
            self.cov["states"] += r.distinct
            self.cov["transitions"] += r.generated

    def case(self, obj, nontrivial=True):
        """Count one evaluated case; distinct+non-trivial are counted by content hash."""
        self.cov["evaluations"] += 1
        if nontrivial:
            h = hashlib.sha1(json.dumps(obj, sort_keys=True, default=str).encode()).hexdigest()
            self._distinct.add(h)
        self.cov["distinct_nontrivial"] = len(self._distinct)

    def sample(self, obj, limit=4):
        if len(self.cov["samples"]) < limit:
            self.cov["samples"].append(obj)

    # -- verdicts
    def save_replay(self, tag, payload):
        ensure_dirs()
        body = json.dumps(payload, indent=1, default=str)
        h = hashlib.sha1(body.encode()).hexdigest()[:10]
        path = os.path.join(REPLAYS, f"{self.prop}-{tag}-{h}.json")
        with open(path, "w") as f:
            f.write(body)
        return path

    def violation(self, key, what, payload):
        """Report a violation, classified against known_findings.json by key."""
        kn = known_keys(self.prop)
        if key in kn:
            if key not in self.known_hit:
                self.known_hit[key] = kn[key].get("what", what)
            return
        replay = self.save_replay(key.replace("/", "_"), dict(property=self.prop, key=key, what=what, **payload))
        if len(self.violations) < 20:
            self.violations.append((key, what, replay))

    def finish(self):
        wall = time.time() - self.t0
        for key, what in self.known_hit.items():
            log(f"KNOWN-FINDING: property={self.prop} {key}: {what}")
        for key, what, replay in self.violations:
            log(f"VIOLATION property={self.prop} replay={replay}")
            log(f"  {key}: {what}")
        cov = dict(self.cov)
        if not cov["samples"]:
            cov["samples"] = ["(no sample recorded)"]
        cov["known_findings_hit"] = sorted(self.known_hit)
        ev = dict(property_id=self.prop, tier=self.tier, seed=self.seed, level=self.level,
                  coverage=cov, assumptions=self.assumptions, wall_s=round(wall, 2),
                  violations=len(self.violations))
        with open(os.path.join(EVID, f"{self.prop}.json"), "w") as f:
            json.dump(ev, f, indent=1, default=str)
        log(f"[{self.prop}] {self.tier}: {cov['states']} states, {cov['transitions']} transitions, "
            f"{cov['traces_validated_against_impl']} impl traces validated, {cov['evaluations']} cases "
            f"({cov['distinct_nontrivial']} distinct non-trivial), {len(self.violations)} violations, {wall:.1f}s")
        return 1 if self.violations else 0
