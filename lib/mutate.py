#!/usr/bin/env python3
"""Mechanical mutation survey: a cheap complement to the seeded changes written by sub-agents.

  mutate.py gen <n> <seed>            sample n single-line mutants of /repo's sources -> work/mutants/<k>.json
  mutate.py filter <workers>          in scratch worktrees under /tmp: keep the mutants that build (with and without
                                      features) and pass the pinned test suite              -> status "survives-tests"
  mutate.py detect [k ...]            for each surviving mutant: apply to /repo, run the quick checks of the properties
                                      anchored in the mutated file until one reports a violation, undo; record the verdict
  mutate.py table                     markdown summary

Nothing here is registered in MANIFEST.json; it exercises the registered checks.
"""
import glob, json, os, random, re, shutil, subprocess, sys, time
from concurrent.futures import ThreadPoolExecutor

ROOT = os.path.dirname(os.path.dirname(os.path.abspath(__file__)))
OUT = os.path.join(ROOT, "work", "mutants")
REPO = "/repo"
FEATURES = "hot-reloading,tar,zip,zip-deflate,embedded,utils"

FILES = ["src/cache.rs", "src/anycache.rs", "src/entry.rs", "src/local_cache.rs", "src/utils/private.rs", "src/key.rs", "src/asset.rs",
         "src/error.rs", "src/loader/mod.rs", "src/source/mod.rs", "src/source/filesystem.rs", "src/source/zip.rs", "src/source/tar.rs",
         "src/source/embedded.rs", "macros/src/embedded.rs", "src/hot_reloading/mod.rs", "src/hot_reloading/paths.rs",
         "src/hot_reloading/dependencies.rs", "src/hot_reloading/records.rs", "src/hot_reloading/watcher.rs", "src/dirs.rs",
         "src/utils/bytes.rs", "src/utils/string.rs", "src/utils/cell.rs"]


def anchors():
    m = {}
    for l in open(os.path.join(ROOT, "properties.jsonl")):
        p = json.loads(l)
        for f in p["anchors"]["files"]:
            m.setdefault(f, []).append(p["id"])
    return m


# (name, regex, replacement) applied to one line, one occurrence
OPS = [
    ("eq->ne", r" == ", " != "), ("ne->eq", r" != ", " == "),
    ("le->lt", r" <= ", " < "), ("ge->gt", r" >= ", " > "), ("lt->le", r" < ", " <= "), ("gt->ge", r" > ", " >= "),
    ("and->or", r" && ", " || "), ("or->and", r"(?<=[\w)\]]) \|\| ", " && "),
    ("drop-not", r"(?<=[\s(])!(?=[\w(])", ""),
    ("true->false", r"\btrue\b", "false"), ("false->true", r"\bfalse\b", "true"),
    ("plus1->plus0", r"\+ 1\b", "+ 0"), ("minus1->minus0", r"- 1\b", "- 0"), ("plus->minus", r" \+ (?=[\w(])", " - "),
    ("some->none-check", r"\.is_some\(\)", ".is_none()"), ("none->some-check", r"\.is_none\(\)", ".is_some()"),
    ("ok->err-check", r"\.is_ok\(\)", ".is_err()"), ("err->ok-check", r"\.is_err\(\)", ".is_ok()"),
    ("empty-neg", r"(\b[\w.()]+\.is_empty\(\))", r"!\1"),
    ("min->max", r"\.min\(", ".max("), ("max->min", r"\.max\(", ".min("),
    ("break->continue", r"\bbreak;", "continue;"), ("continue->break", r"\bcontinue;", "break;"),
    ("negate-if", r"\bif (?!let\b)(.+) \{$", r"if !(\1) {"),
    ("negate-while", r"\bwhile (?!let\b)(.+) \{$", r"while !(\1) {"),
    ("drop-rev", r"\.rev\(\)", ""),
    ("delete-stmt", r"^(\s*)(?!let |return|break|continue|//|#|pub |fn |use |\}|\{)([\w:.&*]+(\.|::)[\w:.<>]+\(.*\);)\s*$", r"\1();"),
    ("delete-call", r"^(\s*)(\w+\((.*)\);)\s*$", r"\1();"),
    ("delete-assign", r"^(\s*)((self\.|\*)[\w.\[\]]+ [+-]?= .*;)\s*$", r"\1();"),
    ("range-incl->excl", r"\.\.=", ".."), ("range-excl->incl", r"(?<=[\w)])\.\.(?=[\w(])", "..="),
    ("first->last", r"\.first\(\)", ".last()"), ("last->first", r"\.last\(\)", ".first()"),
    ("starts->ends", r"\.starts_with\(", ".ends_with("), ("ends->starts", r"\.ends_with\(", ".starts_with("),
    ("hot->false", r"\b\w+::HOT_RELOADED\b", "false"), ("hot->true", r"\b\w+::HOT_RELOADED\b", "true"),
    ("less->greater", r"Ordering::Less", "Ordering::Greater"), ("greater->less", r"Ordering::Greater", "Ordering::Less"),
    ("zero->one", r"(?<=[=<>] )0\b(?!\.)", "1"), ("one->zero", r"(?<=[=<>] )1\b(?!\.)", "0"),
    ("some->none", r"^(\s*)Some\((.+)\)$", r"\1None"),
    ("add->sub-fetch", r"fetch_add", "fetch_sub"), ("and_then-skip", r"\.filter\(([^()]*(\([^()]*\))?[^()]*)\)", ""),
    ("ret-early-none", r"^(\s*)(\w[\w.]*)\?;\s*$", r"\1let _ = \2;"),
]

SKIP_LINE = re.compile(r"^\s*(//|#\[|#!\[|\*|use |pub use |mod |pub mod )|log::|verif::|debug_assert|unreachable!|write!\(|f\.debug_|f\.write_str|panic!\(|assert|fn fmt|const fn|impl<|where |-> ")


def sites():
    out = []
    for f in FILES:
        path = os.path.join(REPO, f)
        if not os.path.exists(path):
            continue
        lines = open(path).read().split("\n")
        in_tests = False
        skip_next_item = 0
        for i, line in enumerate(lines):
            if re.search(r"#\[cfg\(test\)\]", line):
                in_tests = True
            if in_tests:
                continue
            if "cfg(assets_manager_verif)" in line:
                skip_next_item = 2
                continue
            if skip_next_item:
                skip_next_item -= 1
                if "verif" in line:
                    continue
            if SKIP_LINE.search(line):
                continue
            for (name, rx, rep) in OPS:
                for m in re.finditer(rx, line):
                    new = line[:m.start()] + m.expand(rep) + line[m.end():]
                    if name in ("lt->le", "gt->ge", "le->lt", "ge->gt") and re.search(r"<[A-Z]|::<|impl|fn |Vec<|Option<|Box<|Arc<|&'|dyn ", line):
                        continue
                    if new != line:
                        out.append(dict(file=f, line=i + 1, op=name, old=line, new=new))
    return out


def make_diff(m):
    path = os.path.join(REPO, m["file"])
    lines = open(path).read().split("\n")
    assert lines[m["line"] - 1] == m["old"], "source moved"
    lo = max(0, m["line"] - 4)
    hi = min(len(lines), m["line"] + 3)
    # lines[-1] is "" after a trailing newline: never part of a hunk
    if hi == len(lines) and lines[-1] == "":
        hi -= 1
    old = lines[lo:hi]
    new = list(old)
    new[m["line"] - 1 - lo] = m["new"]
    hunk = [f"--- a/{m['file']}", f"+++ b/{m['file']}", f"@@ -{lo + 1},{len(old)} +{lo + 1},{len(new)} @@"]
    for j, l in enumerate(old):
        if j == m["line"] - 1 - lo:
            hunk.append("-" + l)
            hunk.append("+" + m["new"])
        else:
            hunk.append(" " + l)
    return "\n".join(hunk) + "\n"


def gen(n, seed):
    os.makedirs(OUT, exist_ok=True)
    all_sites = sites()
    rng = random.Random(seed)
    by_file = {}
    for s in all_sites:
        by_file.setdefault(s["file"], []).append(s)
    print(f"{len(all_sites)} sites in {len(by_file)} files")
    existing = {(m["file"], m["line"], m["op"], m["new"]) for m in load_all()}
    k0 = max([int(os.path.basename(f)[:-5]) for f in glob.glob(os.path.join(OUT, "*.json"))] + [0])
    made = 0
    files = sorted(by_file)
    guard = 0
    while made < n and guard < 50 * n:
        guard += 1
        f = files[rng.randrange(len(files))]          # stratified: every file equally likely
        s = by_file[f][rng.randrange(len(by_file[f]))]
        key = (s["file"], s["line"], s["op"], s["new"])
        if key in existing:
            continue
        existing.add(key)
        made += 1
        s = dict(s, id=k0 + made, status="new", diff=make_diff(s))
        json.dump(s, open(os.path.join(OUT, f"{s['id']}.json"), "w"), indent=1)
    print(f"wrote {made} mutants ({k0 + 1}..{k0 + made})")


def load_all():
    ms = []
    for f in glob.glob(os.path.join(OUT, "*.json")):
        ms.append(json.load(open(f)))
    return sorted(ms, key=lambda m: m.get("id", 0))


def save(m):
    json.dump(m, open(os.path.join(OUT, f"{m['id']}.json"), "w"), indent=1)


def sh(cmd, cwd, timeout=1500, env=None):
    e = dict(os.environ)
    e["CARGO_NET_OFFLINE"] = "true"
    if env:
        e.update(env)
    try:
        p = subprocess.run(cmd, shell=True, cwd=cwd, stdout=subprocess.PIPE, stderr=subprocess.STDOUT, text=True, timeout=timeout, env=e)
        return p.returncode, p.stdout
    except subprocess.TimeoutExpired as ex:
        o = ex.stdout
        return 124, (o.decode("utf-8", "replace") if isinstance(o, bytes) else (o or ""))


def filter_worker(w, todo):
    wt = f"/tmp/mutwt-{w}"
    sh(f"git -C {REPO} worktree remove --force {wt}; rm -rf {wt}", "/")
    rc, out = sh(f"git -C {REPO} worktree add --detach {wt} HEAD", "/")
    if rc != 0:
        print("worktree failed", out)
        return
    env = {"CARGO_TARGET_DIR": f"{wt}/target"}
    try:
        # warm the target directory
        sh(f"cargo build --offline --features {FEATURES}; cargo test --workspace --offline --no-run", wt, env=env, timeout=1800)
        while True:
            try:
                m = todo.pop()
            except IndexError:
                break
            patch = f"{wt}/m.diff"
            open(patch, "w").write(m["diff"])
            sh("git checkout -- src macros", wt)
            rc, out = sh(f"git apply {patch}", wt)
            if rc != 0:
                m["status"] = "no-apply"
                m["log"] = out[-300:]
                save(m)
                continue
            t0 = time.time()
            rc, out = sh(f"cargo build --offline --features {FEATURES} 2>&1 | tail -30", wt, env=env)
            rc1, out1 = sh("cargo build --offline 2>&1 | tail -5", wt, env=env)
            if "error" in out and "could not compile" in out or "could not compile" in out1:
                m["status"] = "no-build"
                m["log"] = out[-400:]
                save(m)
                continue
            rc, out = sh("timeout 600 cargo test --workspace --no-fail-fast --offline 2>&1 | tail -60", wt, env=env, timeout=900)
            passed = [int(x) for x in re.findall(r"test result: ok\. (\d+) passed; 0 failed", out)]
            failed = re.findall(r"test result: FAILED", out)
            if failed or "could not compile" in out or 30 not in passed:
                m["status"] = "killed-by-tests"
                m["log"] = out[-400:]
            else:
                m["status"] = "survives-tests"
            m["filter_secs"] = round(time.time() - t0, 1)
            save(m)
            print(f"[w{w}] mutant {m['id']} {m['file']}:{m['line']} {m['op']}: {m['status']}", flush=True)
    finally:
        sh(f"git -C {REPO} worktree remove --force {wt}; rm -rf {wt}", "/")


def do_filter(workers):
    todo = [m for m in load_all() if m["status"] == "new"]
    todo.reverse()
    print(f"{len(todo)} mutants to filter")
    with ThreadPoolExecutor(workers) as ex:
        for w in range(workers):
            ex.submit(filter_worker, w, todo)


def do_detect(ids):
    anc = anchors()
    ms = [m for m in load_all() if m["status"] == "survives-tests" and (not ids or m["id"] in ids)]
    print(f"{len(ms)} mutants to run the checks on")
    for m in ms:
        rc, out = sh("git status --short -- src macros", REPO)
        if out.strip():
            raise SystemExit("/repo is not clean: " + out)
        patch = os.path.join(OUT, f"{m['id']}.diff")
        open(patch, "w").write(m["diff"])
        checks = anc.get(m["file"], [])
        res = {}
        verdict = "missed"
        try:
            rc, out = sh(f"git apply {patch}", REPO)
            if rc != 0:
                m["status"] = "no-apply"
                save(m)
                continue
            for c in checks:
                t0 = time.time()
                rc, out = sh(f"timeout 3000 ./check {c} quick 2>&1 | tail -40", ROOT, timeout=3100)
                viol = [l for l in out.splitlines() if l.startswith("VIOLATION")]
                tool = [l for l in out.splitlines() if l.startswith("TOOL-ERROR")]
                res[c] = dict(violations=len(viol), first=(viol[0][:200] if viol else ""), tool_error=(tool[0][:300] if tool else ""),
                              secs=round(time.time() - t0, 1))
                if viol:
                    verdict = "detected"
                    break
                if tool:
                    verdict = "tool-error"
        finally:
            sh("git checkout -- src macros", REPO)
        m["status"] = verdict
        m["checks"] = res
        save(m)
        print(f"mutant {m['id']} {m['file']}:{m['line']} {m['op']}: {verdict} {[(c, r['violations']) for c, r in res.items()]}", flush=True)


def table():
    ms = load_all()
    by = {}
    for m in ms:
        by.setdefault(m["status"], []).append(m)
    print({k: len(v) for k, v in by.items()})
    for st in ("missed", "tool-error"):
        for m in by.get(st, []):
            print(f"{st} #{m['id']} {m['file']}:{m['line']} {m['op']}\n   - {m['old'].strip()}\n   + {m['new'].strip()}   triage: {m.get('triage', '')}")


if __name__ == "__main__":
    cmd = sys.argv[1]
    if cmd == "gen":
        gen(int(sys.argv[2]), int(sys.argv[3]))
    elif cmd == "filter":
        do_filter(int(sys.argv[2]))
    elif cmd == "detect":
        do_detect([int(x) for x in sys.argv[2:]])
    elif cmd == "table":
        table()
    elif cmd == "sites":
        s = sites()
        print(len(s))
        for x in random.Random(1).sample(s, 25):
            print(x["file"], x["line"], x["op"], "|", x["new"].strip()[:100])
