#!/usr/bin/env python3
"""Wave bookkeeping for seeded changes produced by sub-agents in /tmp/wt<N>-<PROP>.

  wave.py confirm <N> <PROP>            confirm _out/m1 and _out/m2 of /tmp/wt<N>-<PROP> (seedtool.confirm), store the confirmed
                                        ones as seeded/<PROP>w<N>-m<i>, then remove the scratch worktree and its build output
  wave.py lab <k> <seed-id> ...         run each seed's property check in scratch laboratory k (lab.py) and copy the verdict into
                                        meta.json["detected_by"] marked where="lab copy" (the patch is never applied to /repo)
"""
import json, os, subprocess, sys
sys.path.insert(0, os.path.dirname(os.path.abspath(__file__)))
import seedtool, lab

ROOT = seedtool.ROOT


def confirm(n, prop):
    wt = f"/tmp/wt{n}-{prop}"
    for m in ("m1", "m2"):
        if not os.path.exists(f"{wt}/_out/{m}/patch.diff"):
            print(prop, m, "no deliverable")
            continue
        try:
            ok = seedtool.confirm(wt, m, f"{prop}w{n}")
        except SystemExit as e:
            print(prop, m, "not confirmed:", e)
            continue
        if ok:
            mp = os.path.join(ROOT, "seeded", f"{prop}w{n}-{m}", "meta.json")
            meta = json.load(open(mp))
            meta["breaks"] = prop
            json.dump(meta, open(mp, "w"), indent=1)
    subprocess.run(f"git -C /repo worktree remove --force {wt}; rm -rf {wt}; git -C /repo worktree prune", shell=True)


def labrun(k, ids):
    head = subprocess.run("git -C /verif rev-parse --short HEAD", shell=True, stdout=subprocess.PIPE, text=True).stdout.strip()
    for s in ids:
        lab.seeds(k, [s])
        r = json.load(open(os.path.join(lab.RES, f"{s}.json")))
        mp = os.path.join(ROOT, "seeded", s, "meta.json")
        meta = json.load(open(mp))
        for c, v in r["checks"].items():
            meta["detected_by"][c] = dict(where=f"lab copy of /repo and of /verif (at or after {head})", detected=bool(v["violations"]),
                                          violations=v["violations"], wall_s=v["secs"], lines=[v["first"]] if v["first"] else [],
                                          tool_error=v["tool_error"])
        json.dump(meta, open(mp, "w"), indent=1)


if __name__ == "__main__":
    if sys.argv[1] == "confirm":
        confirm(sys.argv[2], sys.argv[3])
    elif sys.argv[1] == "lab":
        labrun(sys.argv[2], sys.argv[3:])
