"""World-based behaviour generation (spec/MC_World.tla) and replay on the real crate."""
import json
import os

import vlib

# name -> constants of AssetCache / Gen_AssetCache
WORLDS = {
    "W1":  dict(keys="W1Keys", files="W1Files", scripts="W1Scripts", srcs="W1Srcs", ops="W1Ops", hasr=False),
    "W1h": dict(keys="W1Keys", files="W1Files", scripts="W1Scripts", srcs="W1Srcs", ops="W1Ops", hasr=True),
    "W2":  dict(keys="W2Keys", files="W2Files", scripts="W2Scripts", srcs="W2Srcs", ops="W2Ops", hasr=False),
    "W2b": dict(keys="W2bKeys", files="W2bFiles", scripts="W2bScripts", srcs="W2bSrcs", ops="W2bOps", hasr=False),
    "W3":  dict(keys="W3Keys", files="W3Files", scripts="W3Scripts", srcs="W3Srcs", ops="W3Ops", hasr=True),
    "W3s": dict(keys="W3sKeys", files="W3sFiles", scripts="W3sScripts", srcs="W3sSrcs", ops="W3sOps", hasr=True),
    "W3f": dict(keys="W3fKeys", files="W3Files", scripts="W3Scripts", srcs="W3Srcs", ops="W3fOps", hasr=True),
    "W4":  dict(keys="W4Keys", files="W4Files", scripts="W4Scripts", srcs="W4Srcs", ops="W4Ops", hasr=True),
    "W4e": dict(keys="W4Keys", files="W4Files", scripts="W4eScripts", srcs="W4Srcs", ops="W4eOps", hasr=True),
    "W4r": dict(keys="W4Keys", files="W4Files", scripts="W4Scripts", srcs="W4Srcs", ops="W4rOps", hasr=True),
    "W9n": dict(keys="W9nKeys", files="W9nFiles", scripts="W9nScripts", srcs="W9nSrcs", ops="W9nOps", hasr=True),
    "W4x": dict(keys="W4Keys", files="W4Files", scripts="W4Scripts", srcs="W4Srcs", ops="W4xOps", hasr=True),
    "W4s": dict(keys="W4Keys", files="W4Files", scripts="W4Scripts", srcs="W4Srcs", ops="W4sOps", hasr=True),
    "W4t": dict(keys="W4Keys", files="W4Files", scripts="W4Scripts", srcs="W4Srcs", ops="W4tOps", hasr=True),
    "W4y": dict(keys="W4Keys", files="W4Files", scripts="W4Scripts", srcs="W4Srcs", ops="W4yOps", hasr=True),
    "W9o": dict(keys="W9oKeys", files="W9oFiles", scripts="W9oScripts", srcs="W9oSrcs", ops="W9oOps", hasr=True),
    "W4n": dict(keys="W4Keys", files="W4Files", scripts="W4Scripts", srcs="W4Srcs", ops="W4nOps", hasr=True),
    "W4d": dict(keys="W4Keys", files="W4Files", scripts="W4Scripts", srcs="W4Srcs", ops="W4dOps", hasr=True),
    "W5":  dict(keys="W5Keys", files="W5Files", scripts="W5Scripts", srcs="W5Srcs", ops="W5Ops", hasr=True, dirsu='{"d.e"}'),
    "W5f": dict(keys="W5Keys", files="W5Files", scripts="W5Scripts", srcs="W5fSrcs", ops="W5fOps", hasr=True, dirsu='{"d.e"}'),
    "W5c": dict(keys="W5Keys", files="W5Files", scripts="W5Scripts", srcs="W5fSrcs", ops="W5fOps", hasr=False, dirsu='{"d.e"}'),
    "W6":  dict(keys="W6Keys", files="W6Files", scripts="W6Scripts", srcs="W6Srcs", ops="W6Ops", hasr=True),
    "W6c": dict(keys="W6Keys", files="W6Files", scripts="W6Scripts", srcs="W6Srcs", ops="W6Ops", hasr=False),
    "W7":  dict(keys="W7Keys", files="W7Files", scripts="W7Scripts", srcs="W7Srcs", ops="W7Ops", hasr=False),
    "W7r": dict(keys="W7Keys", files="W7Files", scripts="W7Scripts", srcs="W7Srcs", ops="W7ROps", hasr=True),
    "W7c": dict(keys="W7cKeys", files="W7Files", scripts="W7cScripts", srcs="W7Srcs", ops="W7cOps", hasr=True),
    "W6d": dict(keys="W6Keys", files="W6Files", scripts="W6Scripts", srcs="W6Srcs", ops="W6dOps", hasr=True),
    "W7d": dict(keys="W7dKeys", files="W7Files", scripts="W7dScripts", srcs="W7Srcs", ops="W7dOps", hasr=True),
    "W9b": dict(keys="W9bKeys", files="W9bFiles", scripts="W9bScripts", srcs="W9bSrcs", ops="W9bOps", hasr=True),
    "W8":  dict(keys="W3Keys", files="W3Files", scripts="W3Scripts", srcs="W3Srcs", ops="W8Ops", hasr=True),
    "W9":  dict(keys="W9Keys", files="W9Files", scripts="W9Scripts", srcs="W9Srcs", ops="W9Ops", hasr=True),
}

ORDER_FIRST = "TRUE"
FIX_GOI = "TRUE"    # get_or_insert entries are static (D7 repaired in /repo); "FALSE" is the as-built negative control


def cfg_text(w, n, spec="GSpec", invariants=("Emit",), properties=(), extra="", keep="KeepAll"):
    d = WORLDS[w]
    lines = [f"SPECIFICATION {spec}", "CONSTANTS",
             f"  Keys <- {d['keys']}", f"  Files <- {d['files']}", f"  DirsU = {d.get('dirsu', '{}')}",
             f"  Scripts <- {d['scripts']}", f"  InitSrcs <- {d['srcs']}", "  InitDirs = {}",
             f"  HasReloader = {'TRUE' if d['hasr'] else 'FALSE'}", f"  FixGoi = {FIX_GOI}", f"  OrderFirst = {ORDER_FIRST}",
             f"  Ops <- {d['ops']}", f"  N = {n}", f"  Keep <- {keep}"]
    for i in invariants:
        lines.append(f"INVARIANT {i}")
    for p in properties:
        lines.append(f"PROPERTY {p}")
    lines.append("CHECK_DEADLOCK FALSE")
    if extra:
        lines.append(extra)
    return "\n".join(lines) + "\n"


def generate(w, n, *, simulate=None, seed=None, timeout=900, limit=None, keep="KeepAll", module="MC_World"):
    """Behaviours of world w: exhaustive up to length n, or `simulate` random ones of length n."""
    cfg = f"Gen_{w}_{n}_{os.getpid()}.cfg"
    path = os.path.join(vlib.SPEC, cfg)
    with open(path, "w") as f:
        f.write(cfg_text(w, n, keep=keep))
    try:
        r = vlib.tlc_expect_ok(module, cfg, workers=1, simulate=simulate, depth=(n + 1 if simulate else None),
                               seed=seed, timeout=timeout, name=f"gen-{w}-n{n}", xmx="6g")
    finally:
        os.remove(path)
    if r.violated:
        raise vlib.ToolError(f"generator {w}: unexpected {r.violated}")
    behs = vlib.parse_prints(r, "REPLAY", limit=(None if simulate else limit))
    r.total_generated = sum(1 for l in r.prints if l.startswith('<<"REPLAY"'))
    r.prints = []
    r.out = ""
    if simulate:
        # simulation prints prefixes of several lengths only when complete; dedupe
        seen, out = set(), []
        for b in behs:
            k = json.dumps(b, sort_keys=True)
            if k not in seen:
                seen.add(k)
                out.append(b)
        behs = out
    if limit and len(behs) > limit:
        step = len(behs) / limit
        behs = [behs[int(i * step)] for i in range(limit)]
    return r, behs


def model_check(w, n, invariants, properties=(), workers=8, timeout=900):
    """Exhaustive check of property invariants of AssetCache.tla over world w up to depth n."""
    cfg = f"MC_{w}_{n}_{os.getpid()}.cfg"
    path = os.path.join(vlib.SPEC, cfg)
    with open(path, "w") as f:
        f.write(cfg_text(w, n, invariants=invariants, properties=properties))
    try:
        r = vlib.tlc("MC_World", cfg, workers=workers, timeout=timeout, name=f"mc-{w}-n{n}", coverage=False)
    finally:
        os.remove(path)
    if r.error:
        raise vlib.ToolError(f"model check {w}: {r.error}")
    return r


def replay(behs, *, variants=None, timeout=900, features=(), pass_dump=None):
    """Run behaviours on the real crate; returns the harness report.
    pass_dump: file that receives the reloader's bookkeeping hook events (for Trace_Pass.tla)."""
    path = os.path.join(vlib.WORK, f"behs-{os.getpid()}.ndjson")
    with open(path, "w") as f:
        for b in behs:
            f.write(json.dumps(b) + "\n")
    args = ["cache-replay", path]
    if variants or pass_dump:
        args.append(",".join(variants) if variants else "-")
    if pass_dump:
        args.append(pass_dump)
    try:
        p = vlib.run_bin("amv", args, timeout=timeout, features=features)
    finally:
        os.remove(path)
    why = vlib.died(p)
    if why:
        # the replay process died in the code under test: report it as a mismatch of the whole batch
        return dict(cases=len(behs), checks=0, extra={"per_front": {}},
                    mismatches=[dict(what=f"the process replaying the behaviours died ({why})", front="?", step=None, d8=False,
                                     stderr=p.stderr[-1200:])])
    return parse_report(p)


PASS_EVENTS = {"Reset", "Graph", "Event", "MsgClear", "Pass", "PassEnd", "ReloadTry", "ReloadOk", "ReloadErr"}


def parse_report(p):
    for line in p.stdout.splitlines():
        if line.startswith("REPORT "):
            return json.loads(line[7:])
    why = vlib.died(p)
    if why:
        raise vlib.Died(why, p)
    raise vlib.ToolError(f"harness gave no report (rc={p.returncode}):\n{p.stdout[-2000:]}\n{p.stderr[-3000:]}")


def steps_of(b):
    return [(s["step"].get("op"), s["step"].get("ty"), s["step"].get("id")) for s in b[1:]]


def run_suite(ctx, suite, *, classify=None, nontrivial=None, variants=None, features=()):
    """suite: list of (world, n, simulate|None, limit|None).  Generates with TLC, replays on the real
    crate, records coverage, reports mismatches (through `classify(m)` -> finding key)."""
    total = 0
    for item in suite:
        (w, n, sim, limit) = item[:4]
        keep = item[4] if len(item) > 4 else "KeepAll"
        r, behs = generate(w, n, simulate=sim, seed=(ctx.seed if sim else None), limit=limit, keep=keep)
        ctx.add_tlc(f"Gen {w}: behaviours of length {n}" + (f" (simulate num={sim}, seed {ctx.seed})" if sim else " (exhaustive)"), r)
        if not behs:
            raise vlib.ToolError(f"generator {w} produced no behaviour")
        hot = WORLDS[w]["hasr"] and vlib.hooks_present()
        dump = os.path.join(vlib.WORK, f"pass-{w}-{os.getpid()}.ndjson") if hot else None
        rep = replay(behs, variants=variants, features=features, pass_dump=dump)
        total += len(behs)
        if dump and os.path.exists(dump):
            # code -> spec: every hook event of the reloader thread against Trace_Thread.tla (control flow,
            # answers, bookkeeping) and its bookkeeping projection against Trace_Pass.tla (DepsGraph.tla)
            proj = dump + ".pass"
            with open(proj, "w") as f:
                for line in open(dump):
                    if json.loads(line)["ev"] in PASS_EVENTS:
                        f.write(line)
            nev = rep["extra"].get("pass_events", 0)
            for (mod, path, what) in [("Trace_Thread", dump, "control flow / answers / bookkeeping events are not a run of the thread automaton Trace_Thread.tla"),
                                      ("Trace_Pass", proj, "Graph/Event/Pass/ReloadTry events are not explained by DepsGraph.tla")]:
                verdict, tr, detail = vlib.trace_check(mod, mod + ".cfg", path, name=f"{mod[6:].lower()}-{w}", timeout=1200, xmx="6g")
                if verdict == "error":
                    raise vlib.ToolError(f"{mod} validation failed to run: {detail}")
                if mod == "Trace_Thread":
                    ctx.cov["reloader_events_validated"] = ctx.cov.get("reloader_events_validated", 0) + (nev if verdict == "accepted" else 0)
                if verdict != "accepted":
                    keep = path + ".rejected"
                    os.replace(path, keep)
                    ctx.violation(f"{ctx.prop}/{w}:reloader-{mod[6:].lower()}",
                                  f"the reloader thread's {what} ({verdict}: {detail[:300]})",
                                  {"trace_file": keep, "tlc": detail})
            for f in (dump, proj):
                if os.path.exists(f):
                    os.remove(f)
        for b in behs:
            ctx.case(b, nontrivial=(nontrivial(b) if nontrivial else True))
        ctx.sample({"world": w, "behaviour": [s["step"] for s in behs[len(behs) // 2][1:]]})
        ctx.cov.setdefault("replayed", []).append(dict(world=w, length=n, behaviours=len(behs), steps_compared=rep["checks"],
                                                       fronts=rep["extra"].get("per_front"), mismatches=len(rep["mismatches"]),
                                                       exhaustive=(sim is None and limit is None)))
        ctx.cov["traces_validated_against_impl"] += sum(rep["extra"].get("per_front", {}).values())
        for m in rep["mismatches"]:
            key = classify(m) if classify else None
            key = key or f"{ctx.prop}/{w}:{m.get('what', 'mismatch')}"
            beh = m.pop("behaviour", None)
            ctx.violation(key, f"{m.get('what')} (front {m.get('front')}, step {m.get('step')}) differs from AssetCache.tla",
                          {"mismatch": m, "behaviour": beh})
    return total


def binding_demo(ctx, w, n):
    """Corrupt one expected value of one generated behaviour: the replay must report it."""
    r, behs = generate(w, n, limit=200)
    for b in behs:
        for s in b[1:]:
            st = s["step"]
            if st.get("op") == "load" and st.get("ok") and st.get("val", {}).get("t") == "leaf":
                st["val"]["c"] = 99
                for e in s["snap"]:
                    if e["ty"] == st["ty"] and e["id"] == st["id"]:
                        e["val"]["c"] = 99
                rep = replay([b])
                if not rep["mismatches"]:
                    raise vlib.ToolError("binding demo: a corrupted expected value was not reported by the replay")
                ctx.cov["binding_demos"].append({"corrupted": "expected value of one load set to 99", "verdict": "mismatch reported"})
                return
    raise vlib.ToolError("binding demo: no suitable behaviour")


# --------------------------------------------------------------------------
# random larger dependency DAGs (C05: "random larger ones")
# --------------------------------------------------------------------------
def random_world(seed, nnodes=10):
    """Write spec/MC_Rand_<pid>.tla defining a random DAG world 'WR'; returns (module, cleanup)."""
    import random
    rnd = random.Random(seed)
    leaf_ids = ["a", "b", "c", "d"]
    node_ids = ["a", "b", "c", "d", "d.a", "d.b", "d.e", "d.e.a"]
    leaves = [("L0", i) for i in leaf_ids] + [("L1", "a"), ("L2", "b")]
    cands = [(t, i) for t in ("N0", "N1", "N2", "N3") for i in node_ids]
    rnd.shuffle(cands)
    nodes = cands[:nnodes]
    K = lambda k: f'K("{k[0]}","{k[1]}")'
    scripts = []
    for idx, nk in enumerate(nodes):
        ins = []
        for _ in range(rnd.randint(1, 3)):
            # prefer earlier compounds so that the DAG gets deep (chains, diamonds)
            tgt = rnd.choice(nodes[:idx]) if idx > 0 and rnd.random() < 0.65 else rnd.choice(leaves)
            r = rnd.random()
            if r < 0.65:
                ins.append(f'ILoad("{tgt[0]}","{tgt[1]}",{"TRUE" if rnd.random() < 0.5 else "FALSE"})')
            elif r < 0.8:
                ins.append(f'IGet("{tgt[0]}","{tgt[1]}")')
            else:
                ins.append(f'IRead("{rnd.choice(leaf_ids)}","x")')
        scripts.append(f"({K(nk)} :> <<{', '.join(ins)}>>)")
    keys = ", ".join(K(k) for k in leaves + nodes)
    files = ", ".join(f'F("{i}","x")' for i in leaf_ids) + ', F("a","y")'
    tops = ", ".join(K(k) for k in nodes[-4:])
    edits = ", ".join(f'EditOp(F("{i}","x"), {c})' for i in leaf_ids for c in ("CVal(2)", "CVal(3)", "CBad", "None"))
    notif = ", ".join(f'NotifyOp({{FileE("{i}","x")}})' for i in leaf_ids) + ', NotifyOp({FileE("a","x"), FileE("b","x"), FileE("c","x"), FileE("d","x"), FileE("zz","x")})'
    mod = f"MC_Rand_{os.getpid()}"
    text = f"""---- MODULE {mod} ----
(* generated: a random dependency DAG of {nnodes} compounds over 6 leaves (seed {seed}) *)
EXTENDS Gen_AssetCache
K(ty, id) == Key(ty, id)
F(id, ext) == <<id, ext>>
Call(o, ks) == {{[op |-> o, k |-> k] : k \\in ks}}
EditOp(f, c) == [op |-> "edit", f |-> f, c |-> c]
NotifyOp(b) == [op |-> "notify", batch |-> b]
WRKeys == {{{keys}}}
WRFiles == {{{files}}}
WRSrcs == {{[f \\in WRFiles |-> IF f = F("a","y") THEN None ELSE CVal(1)]}}
WRScripts == {' @@ '.join(scripts)}
WROps == Call("load", {{{tops}}}) \\cup {{[op |-> "hot_reload"]}} \\cup {{{edits}}} \\cup {{{notif}}}
====
""".replace("\\\\", "\\")
    path = os.path.join(vlib.SPEC, mod + ".tla")
    with open(path, "w") as f:
        f.write(text)
    WORLDS["WR"] = dict(keys="WRKeys", files="WRFiles", scripts="WRScripts", srcs="WRSrcs", ops="WROps", hasr=True)
    return mod, (lambda: os.remove(path))
