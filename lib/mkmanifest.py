#!/usr/bin/env python3
"""Regenerate /verif/MANIFEST.json from the table below (single source of truth)."""
import json, os, subprocess
ROOT = os.path.dirname(os.path.dirname(os.path.abspath(__file__)))

SEQ_NOTE = ("Bounded worlds of spec/MC_World.tla (<= 9 keys, <= 5 files); behaviours exhaustive up to the stated length and TLC-simulated "
            "beyond; the client is sequential (concurrency is C01/C07/C08's); observation is through the public API plus the "
            "cfg-guarded hooks for synchronisation only.")

CHECKS = {
 "C02": dict(
  category="model_checking",
  text="AssetCache.tla is the reference map; TLC checks its frame laws on every state of the bounded world, and every behaviour it "
       "generates (all call sequences up to length 3-4, simulated to length 10) is replayed on six front-ends of the real crate with "
       "every return value and the whole cache contents compared after every step.",
  design="5/C02", note=SEQ_NOTE,
  technique="TLA+ spec AssetCache.tla checked by TLC; spec->code replay of TLC-generated call sequences on all front-ends",
 ),
 "C03": dict(
  category="model_checking",
  text="The law of load_from_source/ErrorKind::or is stated declaratively (LoadFold.tla) and checked by TLC against the interpreter for "
       "every (leaf type, contents) assignment; the same interpreter generates every content assignment over 4 extensions x 9 keys and "
       "break/repair edit orders, each replayed on the real crate comparing value, error id chain, error class and surviving extension.",
  design="5/C03", note=SEQ_NOTE + " Byte contents are opaque in the spec; byte fidelity is exercised by a seeded concretisation corpus.",
  technique="TLA+ spec LoadFold.tla/AMTypes.tla checked by TLC; exhaustive spec->code replay; byte-level concretisation of the crate's own loaders",
 ),
 "C18": dict(
  category="model_checking",
  text="TLC exhausts every interleaving of 3 concurrent update/load callers (and 2 callers of all public operations) on the "
       "specification of the atomic id; the real AtomicReloadId/ReloadId is bound to it in both directions: every sequential "
       "call sequence up to the bound is replayed with the specification's results, and concurrent runs on the real atomic are "
       "checked to be linearizable behaviours of the specification with the invariants evaluated on every reconstructed state.",
  design="5/C18",
  note="Sequentially consistent steps (memory orderings not modelled); ids are those produced by real reloads; concurrent detection "
       "depends on the recorded schedules (seeded, several hundred runs).",
  technique="TLA+ spec ReloadId.tla checked by TLC; spec->code replay of TLC-generated call sequences; code->spec trace validation with linearization search",
 ),
}

PENDING_REASON = "check not built yet in this round (planned, see DESIGN.md section 5)"

def main():
    props = [json.loads(l)["id"] for l in open(os.path.join(ROOT, "properties.jsonl"))]
    hooks = []
    try:
        out = subprocess.run(["git", "-C", "/repo", "log", "--format=%H %s"], capture_output=True, text=True).stdout
        hooks = [l.split()[0] for l in out.splitlines() if l.split(" ", 1)[1].startswith("verif hooks:")]
    except Exception:
        pass
    checks = []
    for p in props:
        if p not in CHECKS:
            continue
        c = CHECKS[p]
        checks.append(dict(
            property_id=p,
            quick_cmd=f"./check {p} quick",
            thorough_cmd=f"./check {p} thorough",
            evidence_file=f"/verif/evidence/{p}.json",
            replay_cmd_template=f"./check {p} --replay {{path}}",
            engine="tlc+amv",
            level_claimed=dict(category=c["category"], text=c["text"], design_ref=c["design"]),
            level_note=c["note"],
            technique=c["technique"],
        ))
    m = dict(
        version=1,
        setup_cmd="./setup.sh",
        hooks=dict(guard="assets_manager_verif",
                   enable="rustc --cfg assets_manager_verif, set by /verif/harness/.cargo/config.toml (build.rustflags); the harness is a path dependency on /repo",
                   baseline_off_cmd="cd /repo && cargo test --workspace --no-fail-fast --offline",
                   source_commits=hooks, add_only=True),
        engines=[dict(name="tlc+amv", path="/verif/check", serves_properties=[c["property_id"] for c in checks],
                      kind_free_text="TLA+ specifications (spec/) model-checked with TLC; Rust harness (harness/, binary amv) replays "
                                     "TLC-generated behaviours into the real crate and records traces that TLC validates against the trace specifications")],
        checks=checks,
        notes="See DESIGN.md. known_findings.json lists genuine defects recorded rather than repaired.",
        not_applicable=[dict(property_id=p, reason=PENDING_REASON) for p in props if p not in CHECKS],
    )
    json.dump(m, open(os.path.join(ROOT, "MANIFEST.json"), "w"), indent=1)

if __name__ == "__main__":
    main()
