#!/usr/bin/env python3
"""Regenerate /verif/MANIFEST.json from the table below (single source of truth)."""
import json, os, subprocess
ROOT = os.path.dirname(os.path.dirname(os.path.abspath(__file__)))

SEQ_NOTE = ("Bounded worlds of spec/MC_World.tla (<= 9 keys, <= 5 files); behaviours exhaustive up to the stated length and TLC-simulated "
            "beyond; the client is sequential (concurrency is C01/C07/C08's); observation is through the public API plus the "
            "cfg-guarded hooks for synchronisation only.")

HOT_NOTE = (SEQ_NOTE + " 'Notified' is read as 'dequeued by the reloader' (the client waits for the hook-observed EventsEnd before "
            "hot_reload). Outcomes that depend on an order the code does not promise (no_record look-ups of an asset of the same pass, a fault "
            "armed over unordered reloads) are compared for presence only.")

CHECKS = {
 "C12": dict(
  category="model_checking",
  text="Watcher.tla models paths as component sequences and transcribes path_of, id_of_path and the notification table; TLC checks RoundTrip over every "
       "spelling of the reported path ('.', 'x/..', 'x/y/../..'), Injective and TableExact for every entry to depth 3 x every kind (three as-built behaviours are "
       "negative controls). Every (entry, kind, spelling) is materialised on disk and fed as a synthetic notify event to the real id_of_path and "
       "the real event handler bound to a test channel, with one and two roots and with paths outside the roots; real inotify histories (one root, a symlinked root, and outer / inner / disjoint roots given to one builder in both orders) check the "
       "required entries end to end. WatcherSeq.tla states that the answer for a path does not depend on the paths converted before (one id builder lives across notifications; two negative controls); every history of two notifications is replayed through ONE real handler.",
  design="5/C12", note="Needs the cfg-guarded re-export of the private watcher pieces (anchors.hook_needed); without hooks only the specification is checked.",
  technique="TLA+ specs Watcher.tla, WatcherSeq.tla checked by TLC; exhaustive spec->code replay through the real handler (fresh and long-lived); real-watcher histories",
 ),
 "C16": dict(
  category="model_checking",
  text="SharedBytes.tla (clone/send/read/decrement/free as steps) is checked by TLC over every interleaving of 3 threads x 4 handles with two negative "
       "controls, plus the layout theorem for every constructor path; Utf8.tla gives the verdict for every byte-class sequence up to length 4. "
       "Generated behaviours run on real values owned by real threads through 8 constructor paths under a recording allocator; every class sequence "
       "is concretised to boundary bytes for from_utf8 and the four serde visitors; eq/ord/hash are compared with slices.",
  design="5/C16", note="Memory orderings are not modelled; real interleavings are at whole-call granularity; the allocator ledger is an observation.",
  technique="TLA+ specs SharedBytes.tla, Utf8.tla checked by TLC; spec->code replay with allocation ledger; exhaustive UTF-8 class enumeration",
 ),
 "C17": dict(
  category="model_checking",
  text="OnceInit.tla is checked by TLC over every interleaving of 3 threads x 4 attempts x outcomes for both seed kinds (negative control: seed "
       "dropped inside the initialiser); the real cell goes through every outcome sequence up to length 4 on both code paths and with a "
       "panicking seed destructor with counted seeds/values, through 300 races of 2-4 threads and 300 publish races on each code path (readers spinning on get() and waiters in get_or_init while one thread initialises; negative control PublishLate).",
  design="5/C17", note="Interleavings of the real races are OS-produced.",
  technique="TLA+ spec OnceInit.tla checked by TLC; exhaustive outcome-sequence replay on the real cell with drop accounting",
 ),
 "C04": dict(
  category="model_checking",
  text="Sources.tla grows every tree up to a node bound, freezes it into an archive with every subset of explicit directory members and "
       "registers the members in every order through the transcription of register_file; TLC checks the index against the tree "
       "(each child exactly once, right kind/id/extension, root included, nothing else exists; as-built registration is the negative "
       "control). Every generated case is materialised as a real directory, tar and zip archives (in memory and file-backed, stored and "
       "deflated, './' prefixes, long and unicode names) and an embedded table, and every query of the universe is asked of each source, "
       "also from 4 threads (duplicate and dir/../ member names, GNU long names, empty and 300 kB members, symlinked and non-UTF-8-named entries, a root named like a file); the entries listed are also asked is_file / is_dir / id / parent_id (ParentIdAgrees) and the sources are asked again through &S, Arc<S> and Box<dyn Source>; the embed! macro is expanded in its own harness variant and compared with the filesystem on a fixed directory.",
  design="5/C04", note="Trees of <= 3 nodes exhaustively (4 in the thorough tier), <= 5 by simulation; 2 model names x 4 concretisations; archive formats trusted to the tar/zip crates.",
  technique="TLA+ spec Sources.tla checked by TLC; spec->code replay of every generated (tree, members, order) on all source kinds",
 ),
 "C11": dict(
  category="model_checking",
  text="Sources.tla states which ids a directory / recursive directory asset lists (RefDirIds/RefRecIds) and TLC checks the code's algorithm against "
       "them for every tree, four extension lists (one of them empty) and an unreadable sub-directory; every generated tree is loaded through load_dir / "
       "load_rec_dir (also Arc<T>, and a type with its own select_ids / sub_directories against RefRecIdsF), ids, iter and iter_cached on every source kind and compared with the specification's sets, incl. the root "
       "id and a missing directory.",
  design="5/C11", note="Same bounds as C04; unreadable directories are simulated by a wrapper source.",
  technique="TLA+ spec Sources.tla checked by TLC; spec->code replay of generated trees through the directory assets on all source kinds",
 ),
 "C01": dict(
  category="model_checking",
  text="CacheRace.tla splits every call into look-up, value production and first-writer-wins insertion; TLC checks StableHandle, SeesWinner, "
       "PresenceMonotone and HandleLive over every interleaving of 3 threads x 2 calls on 1-2 keys (insert-replaces as negative control). "
       "Concurrent runs on the real cache (2-4 threads, forced simultaneous misses, thousands of unrelated insertions, long-lived handles "
       "re-read) are validated against it by linearization search using the Insert hook inside the shard lock, under std and parking_lot locks; ids of every length class, 64 types under one id and look-ups made with the stored id itself are probed on the three front-ends.",
  design="5/C01", note="All schedules are covered in the model only (3 threads, 2 keys); real schedules are OS-produced plus gate-forced ones. Handle identity = "
       "address of the returned reference. Shard count and hash seed vary per cache instance (fresh cache per round).",
  technique="TLA+ spec CacheRace.tla checked by TLC; trace validation with linearization search of concurrent runs on the real cache",
 ),
 "C07": dict(
  category="model_checking",
  text="RwGuard.tla refines rewrites and reads to word granularity under the entry lock; TLC checks NoTornRead, Pinned, ChangeOnlyInHotReload and "
       "ReturnAfterPass over every interleaving of 2 readers, reloader and caller in both modes (two negative controls). Real reader threads with "
       "short, long-held and mapped guards over a 4 KiB inline value (and copied()/cloned() loops on 64- and 16-byte values) race a stream of reloads under both lock implementations and both modes; "
       "their GuardAcq/GuardRel observations, the Write hook and hot_reload Begin/End are validated against the specification; inline values of 60 size classes (1 .. 4100 bytes, alignments 1/2/4/8) are reloaded and must be replaced whole.",
  design="5/C07", note="Torn reads in the real runs are detected probabilistically; memory orderings are not modelled.",
  technique="TLA+ spec RwGuard.tla checked by TLC; trace validation of guard/write/hot_reload events from reader-vs-reloader stress runs",
 ),
 "C13": dict(
  category="model_checking",
  text="The ownership ledgers of CacheRace.tla and AssetCache.tla are checked by TLC (StoredLive, LoserDropped, NoLeak, DropOnce, NoUseAfterDrop); "
       "every value in the concurrent and sequential runs is a tracked token whose drop is accepted only after the step that kills it, exactly "
       "once, with nothing left once the cache is gone; four value layouts (zero-sized, 1 byte, heap, 64-aligned) are counted through every "
       "operation incl. reload replacement, each layout is held by a plain, mapped and untyped guard across a requested reload (nothing dropped, id unmoved until release), and all (stored, requested) type pairs are asked of untyped handles and guards.",
  design="5/C13", note="The ownership protocol is decided, not the memory safety of the unsafe code implementing it (tracked values and counters are observations).",
  technique="TLA+ specs CacheRace.tla/AssetCache.tla checked by TLC; drop-ledger trace validation; layout probes",
 ),
 "C08": dict(
  category="model_checking",
  text="Answers.tla models the answer mailbox at mutex/condvar grain; TLC exhausts 3-4 concurrent callers for deadlock freedom, OwnAnswer, "
       "NoLostWakeup and (under fairness) AllReturn, with the as-built consume-without-notify as negative control; Reloader.tla bounds the sort "
       "on every dependency graph incl. cycles; Lifecycle.tla shows no request is orphaned. The real crate runs 2-8 concurrent callers x "
       "loader threads x event bursts (plain, cyclic look-ups, reloads panicking with message and opaque payloads, sender dropped mid-run) in a child under a progress "
       "watchdog; its Request/Notify/Consume/return events are validated against Answers.tla (up to 4 callers) and every hook event of the reloader thread against the thread automaton Trace_Thread.tla.",
  design="5/C08", note="Real schedules are those the OS produced (seeded drivers); all schedules are covered only in the model, for <= 4 callers. "
       "Blocked = no completed call and no CPU for 4 s.",
  technique="TLA+ specs Answers.tla, Reloader.tla, ChannelCap.tla checked by TLC (safety, deadlock, liveness); trace validation of hook events from concurrent stress runs (Trace_Answers.tla, Trace_Thread.tla); progress watchdog",
 ),
 "C15": dict(
  category="model_checking",
  text="Lifecycle.tla models the reloader's select loop and the lifetimes of its channels; TLC checks NoSpin, BlockedWhenIdle, NoOrphanRequest and, "
       "under fairness, GoesAway/AllAnswered over every order of use, cache drop and sender drop (as-built exits are negative controls). "
       "Hook events of real create/use/drop rounds are validated against it (every wake-up has a cause, every iteration consumes, exit exactly "
       "after the drop), and /proc gives the thread's CPU time when idle and its disappearance after the drop, for in-memory and FileSystem sources (incl. the file watchers of dropped caches). DropOrder.tla: the reloader is let go before the source, so a source whose destructor waits for its event channel to close does not block drop(cache) (negative control: source first).",
  design="5/C15", note="CPU time and thread existence are OS measurements with the thresholds stated in the evidence; FileSystem rounds are measured but not "
       "trace-validated (the watcher's sends are not logged).",
  technique="TLA+ specs Lifecycle.tla, DropOrder.tla checked by TLC (safety + liveness); trace validation of the reloader loop's hook events; /proc thread accounting in a child process",
 ),
 "C05": dict(
  category="model_checking",
  text="TLC checks Converged (cached value = a fresh load from the current source and cache whenever the reloader is quiet and nothing the "
       "asset depends on is pending) on the diamond, re-wiring and directory worlds, and the as-built sort against OrderOK on every graph "
       "of <= 5 nodes incl. cycles; the D8 shape is the negative control. Every generated history (value edits, re-wiring, break/repair, "
       "create/delete, directory changes, batches with duplicates, noise and entries that share an id, a recorded set that shrinks to nothing, hot_reload and enhance modes) is replayed on the real crate "
       "with values, reload ids and registered dependency sets compared after every step, and every hook event of the reloader thread in those replays is validated against Trace_Thread.tla / DepsGraph.tla (loop structure, answers after their pass, known verdicts, changed sets, OrderOK).",
  design="5/C05", note=HOT_NOTE + " Known finding C05/rewire-same-batch is reported as KNOWN-FINDING.",
  technique="TLA+ specs AssetCache.tla + Reloader.tla checked by TLC; spec->code replay of TLC-generated edit/notify histories with hook-based synchronisation; code->spec trace validation of the reloader thread (Trace_Thread.tla)",
 ),
 "C06": dict(
  category="model_checking",
  text="RidStep (the id moves by one only on a rewrite) and the watcher/global-flag protocol (Watcher6.tla: true exactly when a rewrite "
       "happened since last asked; a value read after a report is at least as new; negative control bumps the id before the swap) are "
       "checked by TLC; the replay compares the reload id of every cached handle after every step of every generated history (who is "
       "rewritten, how often per pass, never on un-notified edits or unknown entries), checks a ReloadWatcher and reloaded_global of every "
       "handle around every hot_reload, and places every source read of the reloader thread inside a pass.",
  design="5/C06", note=HOT_NOTE,
  technique="TLA+ specs AssetCache.tla, Watcher6.tla, Reloader.tla checked by TLC; spec->code replay comparing reload ids and watcher reports",
 ),
 "C09": dict(
  category="fault_enumeration",
  text="A fault plan (k-th source read fails with one of three io kinds; k-th loader invocation errs or panics) is an environment action of "
       "AssetCache.tla; TLC checks containment invariants over every position and kind, for initial loads and for reloads on the reloader "
       "thread, and each (scenario, position, kind, repair, retry) history is replayed on the real crate: error of the faulted call, "
       "untouched cached values, recording after the fault, recovery after repair, hot_reload returning.",
  design="5/C09", note=HOT_NOTE + " One fault per armed plan, injected by the harness-owned Source/Loader.",
  technique="TLA+ spec AssetCache.tla with fault actions checked by TLC; fault position x kind enumerated by TLC and replayed on the real crate",
 ),
 "C10": dict(
  category="model_checking",
  text="NeverRewritten / StaticEntry / InsertedNeverReloaded are checked by TLC on every history of load/remove/take/clear/get_or_insert "
       "mixed with edits and notifications (as-built get_or_insert is the negative control), and every such history up to length 5 "
       "(simulated beyond) is replayed on every constructor; Handle::get references are checked stable across notified edits.",
  design="5/C10", note=HOT_NOTE,
  technique="TLA+ spec AssetCache.tla checked by TLC; exhaustive spec->code replay of remove/insert/notify histories on all constructors",
 ),
 "C14": dict(
  category="model_checking",
  text="The recorder semantics of AMTypes.tla (fresh recorder per reloadable nested load, none inside no_record, non-reloadable nested "
       "loads record into the outer asset) determine the exact dependency set of every asset; the replay compares it with what the real "
       "reloader registered (Graph hook) for every asset at every quiescent point and compares which handles change reload id after "
       "single-entry edits; helper-thread and second-cache loads are checked by a directed run.",
  design="5/C14", note=HOT_NOTE + " Dependency sets are observed through the cfg-guarded Graph hook.",
  technique="TLA+ spec AMTypes.tla/AssetCache.tla checked by TLC; spec->code replay comparing registered dependency sets and reload ids",
 ),
 "C02": dict(
  category="model_checking",
  text="AssetCache.tla is the reference map; TLC checks its frame laws on every state of the bounded world, and every behaviour it "
       "generates (all call sequences up to length 3-4, simulated to length 10) is replayed on six front-ends of the real crate with "
       "every return value and the whole cache contents compared after every step.",
  design="5/C02", note=SEQ_NOTE,
  technique="TLA+ spec AssetCache.tla checked by TLC; spec->code replay of TLC-generated call sequences on all front-ends",
 ),
 "C03": dict(
  category="model_checking",
  text="The law of load_from_source/ErrorKind::or is stated declaratively (LoadFold.tla) and checked by TLC against the interpreter for "
       "every (leaf type, contents) assignment; the same interpreter generates every content assignment over 4 extensions x 9 keys and "
       "break/repair edit orders, each replayed on the real crate comparing value, error id chain, error class and surviving extension.",
  design="5/C03", note=SEQ_NOTE + " Byte contents are opaque in the spec; byte fidelity is exercised by a seeded concretisation corpus.",
  technique="TLA+ spec LoadFold.tla/AMTypes.tla checked by TLC; exhaustive spec->code replay; byte-level concretisation of the crate's own loaders",
 ),
 "C18": dict(
  category="model_checking",
  text="TLC exhausts every interleaving of 3 concurrent update/load callers (and 2 callers of all public operations) on the "
       "specification of the atomic id; the real AtomicReloadId/ReloadId is bound to it in both directions: every sequential "
       "call sequence up to the bound is replayed with the specification's results, and concurrent runs on the real atomic are "
       "checked to be linearizable behaviours of the specification with the invariants evaluated on every reconstructed state.",
  design="5/C18",
  note="Sequentially consistent steps (memory orderings not modelled); ids are those produced by real reloads; concurrent detection "
       "depends on the recorded schedules (seeded, several hundred runs).",
  technique="TLA+ spec ReloadId.tla checked by TLC; spec->code replay of TLC-generated call sequences; code->spec trace validation with linearization search",
 ),
}

PENDING_REASON = "check not built yet in this round (planned, see DESIGN.md section 5)"

def main():
    props = [json.loads(l)["id"] for l in open(os.path.join(ROOT, "properties.jsonl"))]
    hooks = []
    try:
        out = subprocess.run(["git", "-C", "/repo", "log", "--format=%H %s"], capture_output=True, text=True).stdout
        hooks = [l.split()[0] for l in out.splitlines() if l.split(" ", 1)[1].startswith("verif hooks:")]
    except Exception:
        pass
    checks = []
    for p in props:
        if p not in CHECKS:
            continue
        c = CHECKS[p]
        checks.append(dict(
            property_id=p,
            quick_cmd=f"./check {p} quick",
            thorough_cmd=f"./check {p} thorough",
            evidence_file=f"/verif/evidence/{p}.json",
            replay_cmd_template=f"./check {p} --replay {{path}}",
            engine="tlc+amv",
            level_claimed=dict(category=c["category"], text=c["text"], design_ref=c["design"]),
            level_note=c["note"],
            technique=c["technique"],
        ))
    m = dict(
        version=1,
        setup_cmd="./setup.sh",
        hooks=dict(guard="assets_manager_verif",
                   enable="rustc --cfg assets_manager_verif, set by /verif/harness/.cargo/config.toml (build.rustflags); the harness is a path dependency on /repo",
                   baseline_off_cmd="cd /repo && cargo test --workspace --no-fail-fast --offline",
                   source_commits=hooks, add_only=True),
        engines=[dict(name="tlc+amv", path="/verif/check", serves_properties=[c["property_id"] for c in checks],
                      kind_free_text="TLA+ specifications (spec/) model-checked with TLC; Rust harness (harness/, binary amv) replays "
                                     "TLC-generated behaviours into the real crate and records traces that TLC validates against the trace specifications")],
        checks=checks,
        notes="See DESIGN.md. known_findings.json lists genuine defects recorded rather than repaired.",
        not_applicable=[dict(property_id=p, reason=PENDING_REASON) for p in props if p not in CHECKS],
    )
    json.dump(m, open(os.path.join(ROOT, "MANIFEST.json"), "w"), indent=1)

if __name__ == "__main__":
    main()
