#!/usr/bin/env python3
"""Validate MANIFEST.json and evidence/*.json against the schemas (tooling venv)."""
import glob, json, sys
import jsonschema
ok = True
m = json.load(open('/verif/MANIFEST.json'))
try:
    jsonschema.validate(m, json.load(open('/root/.vp/MANIFEST.schema.json'))); print('MANIFEST ok', len(m['checks']), 'checks')
except Exception as e:
    ok = False; print('MANIFEST INVALID', e)
es = json.load(open('/root/.vp/EVIDENCE.schema.json'))
for f in sorted(glob.glob('/verif/evidence/*.json')):
    try:
        jsonschema.validate(json.load(open(f)), es); print('ok', f)
    except Exception as e:
        ok = False; print('INVALID', f, str(e)[:300])
props = {json.loads(l)['id'] for l in open('/verif/properties.jsonl')}
claimed = {c['property_id'] for c in m['checks']}
na = {c['property_id'] for c in m.get('not_applicable', [])}
if claimed & na or (claimed | na) != props:
    ok = False; print('claimed/not_applicable do not partition the properties', claimed & na, props - claimed - na)
sys.exit(0 if ok else 1)
