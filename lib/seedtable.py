#!/usr/bin/env python3
"""Print the markdown table of seeded changes and which checks report them (from seeded/*/meta.json)."""
import glob, json, os, re
ROOT = os.path.dirname(os.path.dirname(os.path.abspath(__file__)))
rows = []
for f in sorted(glob.glob(os.path.join(ROOT, "seeded", "*", "meta.json"))):
    m = json.load(open(f))
    readme = open(os.path.join(os.path.dirname(f), "README.md")).read()
    title = next((l.strip("# ").strip() for l in readme.splitlines() if l.strip()), "")[:110]
    det = []
    for c, d in sorted(m.get("detected_by", {}).items()):
        if d.get("detected"):
            key = ""
            for l in d.get("lines", []):
                mm = re.match(r"\s+(\S+):", l)
                if mm:
                    key = mm.group(1)
                    break
            det.append(f"{c} ({key})" if key else c)
        else:
            det.append(f"{c}: missed" if d.get("exit") == 0 else f"{c}: tool error")
    rows.append((m["id"], title, "; ".join(det) or "not run"))
print("| seed | change | reported by (first violation key) |")
print("|---|---|---|")
for r in rows:
    print(f"| {r[0]} | {r[1]} | {r[2]} |")
